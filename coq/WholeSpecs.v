(* WholeSpecs.v — specifications of WHOLE functions of src/skinny128-cipher.c / skinny64-cipher.c on the memory
   of the generated whole-function IR (SIR.v, translator/c2sir.py), polymorphic in the bit carrier, built from
   the round / key-schedule steps of KernelSpecs.v and KernelSpecs2.v.

   Block functions.  Memory of skinny*_ecb_encrypt / _decrypt: regions
       0 = output, 1 = input, 2 = the key schedule object (rounds at offset 0, slot i at offset SLOT0 + SLOTSZ*i),
       3 = the local state.
   The specification is a LIST of steps, one per segment of the flattened code cut at the S-box layers:
   prologue (state := input), then per round the S-box layer and the linear layer on (state, slot i), then the
   epilogue (output := state).  *)
From Coq Require Import List Bool NArith Arith Lia.
From Skinny Require Import Bits SpecSkinny IR Anf IRCheck KernelSpecs KernelHom SIRCheck.
Import ListNotations.

(* unconditional homomorphism (all the specification steps commute with evaluation on every memory) *)
Definition homU (sP : mem poly -> mem poly) (sB : mem bool -> mem bool) : Prop :=
  forall rho m, mmap rho (sP m) = sB (mmap rho m).
Lemma homU_spec_hom : forall sizes sP sB, homU sP sB -> spec_hom sizes sP sB.
Proof. intros sizes sP sB H rho m _. apply H. Qed.
Lemma homU_compose : forall f1P f1B f2P f2B, homU f1P f1B -> homU f2P f2B ->
  homU (fun m => f2P (f1P m)) (fun m => f2B (f1B m)).
Proof. intros f1P f1B f2P f2B H1 H2 rho m. rewrite H2, H1. reflexivity. Qed.
Lemma Forall2_homU_spec_hom : forall sizes lP lB, Forall2 homU lP lB -> Forall2 (spec_hom sizes) lP lB.
Proof. intros sizes lP lB H. induction H; constructor; [apply homU_spec_hom; assumption | assumption]. Qed.

Section Whole.
  Variable B : Type.
  Notation reg := (reg B).

  (* the two-region memory of the round kernels, seen inside the four-region memory of the block function *)
  Definition slot_at (slot0 slotsz i : nat) (m : mem B) : list (list B) :=
    firstn slotsz (skipn (slot0 + slotsz * i) (reg m 2)).
  Definition lift_round (slot0 slotsz : nat) (f : mem B -> mem B) (i : nat) (m : mem B) : mem B :=
    [reg m 0; reg m 1; reg m 2; reg (f [reg m 3; slot_at slot0 slotsz i m]) 0].
  Definition w_prologue (m : mem B) : mem B := [reg m 0; reg m 1; reg m 2; reg m 1].
  Definition w_epilogue (m : mem B) : mem B := [reg m 3; reg m 1; reg m 2; reg m 3].

  Section Lists.
    Variables (sub lin : nat -> mem B -> mem B).      (* the two layers of round i, already lifted *)
    (* encryption: prologue; (sub i; lin i) for i = 0 .. R-1, the last linear layer merged with the epilogue *)
    Fixpoint enc_rounds (n i : nat) : list (mem B -> mem B) :=
      match n with
      | O => []
      | S O => [sub i; fun m => w_epilogue (lin i m)]
      | S n' => sub i :: lin i :: enc_rounds n' (S i)
      end.
    Definition enc_steps (R : nat) : list (mem B -> mem B) := w_prologue :: enc_rounds R 0.
    (* decryption: rounds R-1 .. 0, each (lin i; sub i); the first linear layer merged with the prologue *)
    Fixpoint dec_rounds (n : nat) : list (mem B -> mem B) :=
      match n with
      | O => [w_epilogue]
      | S n' => lin n' :: sub n' :: dec_rounds n'
      end.
    Definition dec_steps (R : nat) : list (mem B -> mem B) :=
      match R with
      | O => [fun m => w_epilogue (w_prologue m)]
      | S n' => (fun m => lin n' (w_prologue m)) :: sub n' :: dec_rounds n'
      end.
  End Lists.
End Whole.

(* ---- instances ---- *)
Section Inst.
  Variable B : Type.
  Variables (bx ba : B -> B -> B) (b0 b1 : B).
  Definition enc128_steps (R : nat) : list (mem B -> mem B) :=
    enc_steps B (lift_round B 8 8 (k128_subcells B bx ba b0 b1)) (lift_round B 8 8 (k128_enc_linear B bx b0 b1)) R.
  Definition dec128_steps (R : nat) : list (mem B -> mem B) :=
    dec_steps B (lift_round B 8 8 (k128_subcells_inv B bx ba b0 b1)) (lift_round B 8 8 (k128_dec_linear B bx b0 b1)) R.
  Definition enc64_steps (R : nat) : list (mem B -> mem B) :=
    enc_steps B (lift_round B 4 4 (k64_subcells B bx ba b0 b1)) (lift_round B 4 4 (k64_enc_linear B bx b0 b1)) R.
  Definition dec64_steps (R : nat) : list (mem B -> mem B) :=
    dec_steps B (lift_round B 4 4 (k64_subcells_inv B bx ba b0 b1)) (lift_round B 4 4 (k64_dec_linear B bx b0 b1)) R.
End Inst.

(* ================================================================================================== *)
(* homomorphism of every step                                                                           *)
(* ================================================================================================== *)
Lemma reg_mmap : forall rho (m : mem poly) r, reg bool (mmap rho m) r = map (vmap rho) (reg poly m r).
Proof. intros rho m r. unfold reg. apply nth_mmap. Qed.

Lemma homU_prologue : homU (w_prologue poly) (w_prologue bool).
Proof. intros rho m. unfold w_prologue. rewrite !reg_mmap. reflexivity. Qed.
Lemma homU_epilogue : homU (w_epilogue poly) (w_epilogue bool).
Proof. intros rho m. unfold w_epilogue. rewrite !reg_mmap. reflexivity. Qed.

Lemma homU_lift_round : forall slot0 slotsz fP fB, homU fP fB ->
  forall i, homU (lift_round poly slot0 slotsz fP i) (lift_round bool slot0 slotsz fB i).
Proof.
  intros slot0 slotsz fP fB H i rho m. unfold lift_round, slot_at.
  rewrite !reg_mmap.
  unfold mmap at 1. cbn [map]. rewrite <- (reg_mmap rho (fP _) 0), H.
  unfold mmap at 1. cbn [map]. rewrite skipn_map, firstn_map. reflexivity.
Qed.

Section ListsHom.
  Variables (subP linP : nat -> mem poly -> mem poly) (subB linB : nat -> mem bool -> mem bool).
  Hypothesis Hsub : forall i, homU (subP i) (subB i).
  Hypothesis Hlin : forall i, homU (linP i) (linB i).

  Lemma enc_rounds_hom : forall n i, Forall2 homU (enc_rounds poly subP linP n i) (enc_rounds bool subB linB n i).
  Proof.
    induction n as [|n IH]; intros i; [constructor|].
    destruct n as [|n].
    - cbn [enc_rounds]. constructor; [apply Hsub|]. constructor; [|constructor].
      apply (homU_compose (linP i) (linB i) (w_epilogue poly) (w_epilogue bool)); [apply Hlin | apply homU_epilogue].
    - change (enc_rounds poly subP linP (S (S n)) i) with (subP i :: linP i :: enc_rounds poly subP linP (S n) (S i)).
      change (enc_rounds bool subB linB (S (S n)) i) with (subB i :: linB i :: enc_rounds bool subB linB (S n) (S i)).
      constructor; [apply Hsub|]. constructor; [apply Hlin | apply IH].
  Qed.
  Lemma enc_steps_hom : forall R, Forall2 homU (enc_steps poly subP linP R) (enc_steps bool subB linB R).
  Proof. intros R. unfold enc_steps. constructor; [apply homU_prologue | apply enc_rounds_hom]. Qed.

  Lemma dec_rounds_hom : forall n, Forall2 homU (dec_rounds poly subP linP n) (dec_rounds bool subB linB n).
  Proof.
    induction n as [|n IH]; cbn [dec_rounds].
    - constructor; [apply homU_epilogue | constructor].
    - constructor; [apply Hlin|]. constructor; [apply Hsub | apply IH].
  Qed.
  Lemma dec_steps_hom : forall R, Forall2 homU (dec_steps poly subP linP R) (dec_steps bool subB linB R).
  Proof.
    intros [|n]; cbn [dec_steps].
    - constructor; [|constructor].
      apply (homU_compose (w_prologue poly) (w_prologue bool) (w_epilogue poly) (w_epilogue bool));
        [apply homU_prologue | apply homU_epilogue].
    - constructor.
      + apply (homU_compose (w_prologue poly) (w_prologue bool) (linP n) (linB n)); [apply homU_prologue | apply Hlin].
      + constructor; [apply Hsub | apply dec_rounds_hom].
  Qed.
End ListsHom.

(* the round layers of KernelSpecs.v, unconditionally *)
Ltac homU_by L :=
  intros rho m; unfold mmap, vmap;
  apply L; intros; first [apply peval_pxor | apply peval_pand | reflexivity].
Lemma k128_subcells_homU : homU (k128_subcells poly pxor pand pzero pone) (k128_subcells bool xorb andb false true).
Proof. homU_by k128_subcells_homG. Qed.
Lemma k128_subcells_inv_homU : homU (k128_subcells_inv poly pxor pand pzero pone) (k128_subcells_inv bool xorb andb false true).
Proof. homU_by k128_subcells_inv_homG. Qed.
Lemma k128_enc_linear_homU : homU (k128_enc_linear poly pxor pzero pone) (k128_enc_linear bool xorb false true).
Proof. homU_by k128_enc_linear_homG. Qed.
Lemma k128_dec_linear_homU : homU (k128_dec_linear poly pxor pzero pone) (k128_dec_linear bool xorb false true).
Proof. homU_by k128_dec_linear_homG. Qed.
Lemma k64_subcells_homU : homU (k64_subcells poly pxor pand pzero pone) (k64_subcells bool xorb andb false true).
Proof. homU_by k64_subcells_homG. Qed.
Lemma k64_subcells_inv_homU : homU (k64_subcells_inv poly pxor pand pzero pone) (k64_subcells_inv bool xorb andb false true).
Proof. homU_by k64_subcells_inv_homG. Qed.
Lemma k64_enc_linear_homU : homU (k64_enc_linear poly pxor pzero pone) (k64_enc_linear bool xorb false true).
Proof. homU_by k64_enc_linear_homG. Qed.
Lemma k64_dec_linear_homU : homU (k64_dec_linear poly pxor pzero pone) (k64_dec_linear bool xorb false true).
Proof. homU_by k64_dec_linear_homG. Qed.

Theorem enc128_steps_hom : forall sizes R,
  Forall2 (spec_hom sizes) (enc128_steps poly pxor pand pzero pone R) (enc128_steps bool xorb andb false true R).
Proof.
  intros sizes R. apply Forall2_homU_spec_hom. unfold enc128_steps. apply enc_steps_hom; intros i; apply homU_lift_round.
  - apply k128_subcells_homU.
  - apply k128_enc_linear_homU.
Qed.
Theorem dec128_steps_hom : forall sizes R,
  Forall2 (spec_hom sizes) (dec128_steps poly pxor pand pzero pone R) (dec128_steps bool xorb andb false true R).
Proof.
  intros sizes R. apply Forall2_homU_spec_hom. unfold dec128_steps. apply dec_steps_hom; intros i; apply homU_lift_round.
  - apply k128_subcells_inv_homU.
  - apply k128_dec_linear_homU.
Qed.
Theorem enc64_steps_hom : forall sizes R,
  Forall2 (spec_hom sizes) (enc64_steps poly pxor pand pzero pone R) (enc64_steps bool xorb andb false true R).
Proof.
  intros sizes R. apply Forall2_homU_spec_hom. unfold enc64_steps. apply enc_steps_hom; intros i; apply homU_lift_round.
  - apply k64_subcells_homU.
  - apply k64_enc_linear_homU.
Qed.
Theorem dec64_steps_hom : forall sizes R,
  Forall2 (spec_hom sizes) (dec64_steps poly pxor pand pzero pone R) (dec64_steps bool xorb andb false true R).
Proof.
  intros sizes R. apply Forall2_homU_spec_hom. unfold dec64_steps. apply dec_steps_hom; intros i; apply homU_lift_round.
  - apply k64_subcells_inv_homU.
  - apply k64_dec_linear_homU.
Qed.

(* ================================================================================================== *)
(* windowed form (SIRCheck.check_block_w): the key schedule region cut down to the slot of the round     *)
(* ================================================================================================== *)
Section Windowed.
  Variable B : Type.
  Notation reg := (reg B).
  (* on the window memory, region 2 IS the slot *)
  Definition liftW (f : mem B -> mem B) (m : mem B) : mem B :=
    [reg m 0; reg m 1; reg m 2; reg (f [reg m 3; reg m 2]) 0].
  Variables (slot0 slotsz : nat).
  Definition slot_off (i : nat) : nat := slot0 + slotsz * i.
  Fixpoint enc_round_offs (n i : nat) : list nat :=
    match n with O => [] | S n' => slot_off i :: slot_off i :: enc_round_offs n' (S i) end.
  Definition enc_offs (R : nat) : list nat := slot0 :: enc_round_offs R 0.
  Fixpoint dec_round_offs (n : nat) : list nat :=
    match n with O => [slot0] | S n' => slot_off n' :: slot_off n' :: dec_round_offs n' end.
  Definition dec_offs (R : nat) : list nat :=
    match R with O => [slot0] | S n' => slot_off n' :: slot_off n' :: dec_round_offs n' end.
  Definition enc_stepsW (sub lin : mem B -> mem B) (R : nat) : list (mem B -> mem B) :=
    enc_steps B (fun _ => liftW sub) (fun _ => liftW lin) R.
  Definition dec_stepsW (sub lin : mem B -> mem B) (R : nat) : list (mem B -> mem B) :=
    dec_steps B (fun _ => liftW sub) (fun _ => liftW lin) R.
End Windowed.

Lemma homU_liftW : forall fP fB, homU fP fB -> homU (liftW poly fP) (liftW bool fB).
Proof.
  intros fP fB H rho m. unfold liftW. rewrite !reg_mmap.
  unfold mmap at 1. cbn [map]. rewrite <- (reg_mmap rho (fP _) 0), H.
  unfold mmap at 1. cbn [map]. reflexivity.
Qed.
Theorem enc_stepsW_hom : forall sizes subP subB linP linB R, homU subP subB -> homU linP linB ->
  Forall2 (spec_hom sizes) (enc_stepsW poly subP linP R) (enc_stepsW bool subB linB R).
Proof.
  intros sizes subP subB linP linB R Hs Hl. apply Forall2_homU_spec_hom. unfold enc_stepsW.
  apply enc_steps_hom; intros i; apply homU_liftW; assumption.
Qed.
Theorem dec_stepsW_hom : forall sizes subP subB linP linB R, homU subP subB -> homU linP linB ->
  Forall2 (spec_hom sizes) (dec_stepsW poly subP linP R) (dec_stepsW bool subB linB R).
Proof.
  intros sizes subP subB linP linB R Hs Hl. apply Forall2_homU_spec_hom. unfold dec_stepsW.
  apply dec_steps_hom; intros i; apply homU_liftW; assumption.
Qed.

(* ---- closed form of the fold that check_block_w_sound produces, on a four-region memory ---- *)
From Skinny Require Import Frame.
Section Closed.
  Variables (slot0 slotsz : nat).
  Variables (sub lin : mem bool -> mem bool).         (* the two layers on [state; slot] *)
  Notation foldW := (fold_left (fun acc (ob : nat * (mem bool -> mem bool)) =>
                       unwindow bool 2 acc (snd ob (window bool 2 (fst ob) slotsz acc)))).
  Definition slot_of (ks : list (list bool)) (i : nat) : list (list bool) :=
    firstn slotsz (skipn (slot_off slot0 slotsz i) ks).
  Definition enc_step (ks : list (list bool)) (st : list (list bool)) (i : nat) : list (list bool) :=
    reg bool (lin [reg bool (sub [st; slot_of ks i]) 0; slot_of ks i]) 0.
  Definition dec_step (ks : list (list bool)) (st : list (list bool)) (i : nat) : list (list bool) :=
    reg bool (sub [reg bool (lin [st; slot_of ks i]) 0; slot_of ks i]) 0.

  Lemma stepW_sub : forall o x0 x1 ks st,
    unwindow bool 2 [x0; x1; ks; st] (liftW bool sub (window bool 2 o slotsz [x0; x1; ks; st]))
    = [x0; x1; ks; reg bool (sub [st; firstn slotsz (skipn o ks)]) 0].
  Proof. reflexivity. Qed.

  Lemma enc_rounds_closed : forall n i x0 x1 ks st, 0 < n ->
    foldW (combine (enc_round_offs slot0 slotsz n i) (enc_rounds bool (fun _ => liftW bool sub) (fun _ => liftW bool lin) n i))
          [x0; x1; ks; st]
    = let st' := fold_left (enc_step ks) (seq i n) st in [st'; x1; ks; st'].
  Proof.
    induction n as [|n IH]; intros i x0 x1 ks st Hn; [lia|].
    destruct n as [|n].
    - reflexivity.
    - change (enc_rounds bool (fun _ => liftW bool sub) (fun _ => liftW bool lin) (S (S n)) i)
        with (liftW bool sub :: liftW bool lin :: enc_rounds bool (fun _ => liftW bool sub) (fun _ => liftW bool lin) (S n) (S i)).
      change (enc_round_offs slot0 slotsz (S (S n)) i)
        with (slot_off slot0 slotsz i :: slot_off slot0 slotsz i :: enc_round_offs slot0 slotsz (S n) (S i)).
      cbn [combine fold_left fst snd]. rewrite stepW_sub.
      change (unwindow bool 2 ?m (liftW bool lin (window bool 2 ?o slotsz ?m)))
        with (unwindow bool 2 m (liftW bool lin (window bool 2 o slotsz m))).
      match goal with |- foldW _ (unwindow bool 2 [?a; ?b; ?c; ?d] (liftW bool lin (window bool 2 ?o slotsz _))) = _ =>
        change (unwindow bool 2 [a; b; c; d] (liftW bool lin (window bool 2 o slotsz [a; b; c; d])))
          with [a; b; c; reg bool (lin [d; firstn slotsz (skipn o c)]) 0] end.
      rewrite IH by lia. cbn zeta. change (seq i (S (S n))) with (i :: seq (S i) (S n)). reflexivity.
  Qed.

  Theorem enc_closed : forall R x0 x1 ks st, 0 < R ->
    foldW (combine (enc_offs slot0 slotsz R) (enc_stepsW bool sub lin R)) [x0; x1; ks; st]
    = let st' := fold_left (enc_step ks) (seq 0 R) x1 in [st'; x1; ks; st'].
  Proof.
    intros R x0 x1 ks st HR. unfold enc_offs, enc_stepsW, enc_steps. cbn [combine fold_left fst snd].
    change (unwindow bool 2 [x0; x1; ks; st] (w_prologue bool (window bool 2 slot0 slotsz [x0; x1; ks; st])))
      with [x0; x1; ks; x1].
    apply enc_rounds_closed. exact HR.
  Qed.

  Lemma dec_rounds_closed : forall n x0 x1 ks st,
    foldW (combine (dec_round_offs slot0 slotsz n) (dec_rounds bool (fun _ => liftW bool sub) (fun _ => liftW bool lin) n))
          [x0; x1; ks; st]
    = let st' := fold_left (dec_step ks) (rev (seq 0 n)) st in [st'; x1; ks; st'].
  Proof.
    induction n as [|n IH]; intros x0 x1 ks st; [reflexivity|].
    cbn [dec_rounds dec_round_offs combine fold_left fst snd].
    match goal with |- foldW _ (unwindow bool 2 _ (liftW bool sub (window bool 2 ?o slotsz (unwindow bool 2 [?a; ?b; ?c; ?d] _)))) = _ =>
      change (unwindow bool 2 [a; b; c; d] (liftW bool lin (window bool 2 o slotsz [a; b; c; d])))
        with [a; b; c; reg bool (lin [d; firstn slotsz (skipn o c)]) 0] end.
    rewrite stepW_sub. rewrite IH. cbn zeta.
    rewrite seq_S, rev_app_distr. reflexivity.
  Qed.

  Theorem dec_closed : forall R x0 x1 ks st, 0 < R ->
    foldW (combine (dec_offs slot0 slotsz R) (dec_stepsW bool sub lin R)) [x0; x1; ks; st]
    = let st' := fold_left (dec_step ks) (rev (seq 0 R)) x1 in [st'; x1; ks; st'].
  Proof.
    intros [|n] x0 x1 ks st HR; [lia|]. unfold dec_offs, dec_stepsW, dec_steps.
    cbn [combine fold_left fst snd].
    change (unwindow bool 2 [x0; x1; ks; st] (liftW bool lin (w_prologue bool (window bool 2 (slot_off slot0 slotsz n) slotsz [x0; x1; ks; st]))))
      with [x0; x1; ks; reg bool (lin [x1; firstn slotsz (skipn (slot_off slot0 slotsz n) ks)]) 0].
    rewrite stepW_sub.
    rewrite (dec_rounds_closed n). cbn zeta. rewrite seq_S, rev_app_distr. reflexivity.
  Qed.
End Closed.
