(* WholeContracts.v — non-vacuity of the call contracts that pctr_model, vctr_model_* and ppar_model assume of the
   interpretation cB of a procedure call: for EVERY block function E there is an interpretation that meets the contract
   (it decodes the first argument bytes and applies E), so the theorems are not implications with unsatisfiable premises;
   and a concrete instance: the model's SKINNY-128 encryption under a key schedule. *)
From Coq Require Import List Bool NArith Arith Lia.
From Skinny Require Import Bits SpecSkinny IR SIR Anf IRCheck KernelSpecs KernelSpecs2 KernelHom SIRCheck WholeSpecs SIRProofs Frame
                           ModelCipher ModelCtr ProofsCtr WholeBridge WholeKey WholeProc WholeCtr WholeCtrModel WholeCtrVec
                           WholeCtrVecModel WholePar.
Import ListNotations.

Definition bytes_of_bits8 (n : nat) (l : list bool) : list byte := map (c8_of_bits bool false) (bytes_of bool false n l).

Lemma bytes_of_app_concat : forall (L : list (list bool)) rest, bytes8 L ->
  bytes_of bool false (length L) (concat L ++ rest) = L.
Proof.
  induction L as [|b L IH]; intros rest H; [reflexivity|]. inversion H as [|b' L' Hb HL]; subst.
  cbn [length bytes_of concat]. rewrite <- app_assoc.
  rewrite firstn_app, Hb, Nat.sub_diag, firstn_O, app_nil_r, firstn_all2 by lia.
  rewrite take_pad_id8 by exact Hb. f_equal.
  rewrite skipn_app, Hb, Nat.sub_diag, skipn_all2 by lia. cbn [app skipn]. apply IH. exact HL.
Qed.
Lemma decode_bits : forall (blk : list byte) rest, bytes_of_bits8 (length blk) (concat (bitsB blk) ++ rest) = blk.
Proof.
  intros blk rest. unfold bytes_of_bits8.
  replace (length blk) with (length (bitsB blk)) by apply map_length.
  rewrite bytes_of_app_concat by apply bits_len8.
  rewrite map_map. rewrite <- (map_id blk) at 2. apply map_ext. intros b. apply (c8_of_bits_of_c8 bool false).
Qed.

(* the interpretation: decode the first n bytes of the argument, apply G *)
Definition cB_of (n : nat) (G : list byte -> list byte) (f : nat) (bits : list bool) : list bool :=
  concat (bitsB (G (bytes_of_bits8 n bits))).

Theorem block_contract_satisfiable : forall (E : list byte -> list byte) bs kn (KS : list (list bool)) fno,
  forall blk, length blk = bs ->
  cB_of bs E fno (concat (bitsB blk) ++ concat (firstn kn KS)) = concat (bitsB (E blk)).
Proof. intros E bs kn KS fno blk H. unfold cB_of. rewrite <- H, decode_bits. reflexivity. Qed.

(* the parallel contracts: one interpretation for both callees *)
Definition cB_par (bs psize fvec : nat) (E : list byte -> list byte) (f : nat) (bits : list bool) : list bool :=
  if Nat.eqb f fvec then cB_of psize (fun grp => concat (map E (blocks bs grp))) f bits else cB_of bs E f bits.
Theorem par_contracts_satisfiable : forall (E : list byte -> list byte) bs psize kn (KS : list (list bool)) fvec fblk, fvec <> fblk ->
  (forall blk, length blk = bs -> cB_par bs psize fvec E fblk (concat (bitsB blk) ++ concat (firstn kn KS)) = concat (bitsB (E blk))) /\
  (forall grp, length grp = psize ->
     cB_par bs psize fvec E fvec (concat (bitsB grp) ++ concat (firstn kn KS)) = concat (bitsB (concat (map E (blocks bs grp))))).
Proof.
  intros E bs psize kn KS fvec fblk Hne. unfold cB_par. split.
  - intros blk H. destruct (Nat.eqb fblk fvec) eqn:Ef; [apply Nat.eqb_eq in Ef; congruence|]. apply block_contract_satisfiable. exact H.
  - intros grp H. rewrite Nat.eqb_refl. unfold cB_of. rewrite <- H, decode_bits. reflexivity.
Qed.

(* a concrete, non-trivial instance of every premise of pctr_model: SKINNY-128-128 under the all-0x01.. key, a 19-byte
   request at offset 5 — the model's crypt is defined there and the contract holds *)
Definition ex_key : list byte := map byte_of_N (map N.of_nat (seq 1 16)).
Definition ex_ks : keysched byte := snd (m128_set_key {| ks_rounds := 0; ks_sched := repeat (zhalf byte byte0) 56 |} (Some ex_key) 16).
Definition ex_E (blk : list byte) : list byte := m128_encrypt ex_ks blk.
Example ex_crypt_defined :
  exists c' outb, crypt unit (fun _ => ex_E) 16 1
    {| c_key := tt; c_lanes := [map byte_of_N (map N.of_nat (seq 200 16))]; c_ecounter := zeros 16; c_off := 5 |}
    (map byte_of_N (map N.of_nat (seq 0 19))) = Some (c', outb) /\ length outb = 19.
Proof. eexists. eexists. split; [vm_compute; reflexivity | reflexivity]. Qed.
Example ex_E_length : length (ex_E (zeros 16)) = 16.
Proof. vm_compute. reflexivity. Qed.

Print Assumptions block_contract_satisfiable.
Print Assumptions par_contracts_satisfiable.
Print Assumptions ex_crypt_defined.
