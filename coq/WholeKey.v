(* WholeKey.v — specifications of the WHOLE key-schedule functions (skinny*_set_key, _set_tweaked_key, _set_tweak)
   on the memory of the generated whole-function IR, polymorphic in the bit carrier, built from the loop-body
   specifications of KernelSpecs2.v by a generic "iterate the body over a sliding window of the schedule object"
   combinator; their homomorphism property (premise of SIRCheck.check_obs_sound); and the bridge to the model's
   passes (ModelCipher.sched_loop). *)
From Coq Require Import List Bool NArith Arith Lia.
From Skinny Require Import Bits SpecSkinny IR Anf IRCheck KernelSpecs KernelSpecs2 KernelHom KernelHom2 SIRCheck WholeSpecs
                           ModelCipher KernelBridge WholeBridge.
Import ListNotations.

(* ================================================================================================== *)
(* 1. the sliding-window loop                                                                           *)
(* ================================================================================================== *)
Section Loop.
  Variable B : Type.
  (* the body works on  tk :: window :: aux ;  st = tk :: aux.  Window i = bytes [sw*i, sw*i + 2*sw) of ks:
     the sw bytes before slot i (left alone by the body) and slot i. *)
  Fixpoint loop_win (body : mem B -> mem B) (sw n i : nat) (st : mem B) (ks : list (list B)) : mem B * list (list B) :=
    match n with
    | O => (st, ks)
    | S n' =>
        let w := firstn (2 * sw) (skipn (sw * i) ks) in
        let m' := body (nth 0 st [] :: w :: tl st) in
        loop_win body sw n' (S i) (nth 0 m' [] :: skipn 2 m') (splice B ks (sw * i) (nth 1 m' []))
    end.
  Definition pass (body : mem B -> mem B) (sw n : nat) (tk : list (list B)) (aux : mem B) (ks : list (list B)) : list (list B) :=
    snd (loop_win body sw n 0 (tk :: aux) ks).
End Loop.

Section LoopHom.
  Variables B1 B2 : Type.
  Variable h : B1 -> B2.
  Notation hb := (map (map h)).
  Notation hm := (map (map (map h))).
  Variables (body1 : mem B1 -> mem B1) (body2 : mem B2 -> mem B2).
  Hypothesis Hbody : forall m, hm (body1 m) = body2 (hm m).

  Lemma loop_win_hom : forall sw n i st ks,
    (hm (fst (loop_win B1 body1 sw n i st ks)), hb (snd (loop_win B1 body1 sw n i st ks)))
    = loop_win B2 body2 sw n i (hm st) (hb ks).
  Proof.
    intros sw n. induction n as [|n IH]; intros i st ks; [reflexivity|].
    cbn [loop_win].
    set (m1 := body1 (nth 0 st [] :: firstn (2 * sw) (skipn (sw * i) ks) :: tl st)).
    set (m2 := body2 (nth 0 (hm st) [] :: firstn (2 * sw) (skipn (sw * i) (hb ks)) :: tl (hm st))).
    assert (Hm : hm m1 = m2).
    { unfold m1, m2. rewrite Hbody. cbn [map]. f_equal. f_equal.
      - symmetry. exact (map_nth hb st [] 0).
      - f_equal; [rewrite skipn_map, firstn_map; reflexivity | destruct st; reflexivity]. }
    rewrite IH. f_equal.
    - cbn [map]. rewrite <- Hm. f_equal; [symmetry; exact (map_nth hb m1 [] 0) | symmetry; apply skipn_map].
    - assert (Hn : nth 1 m2 [] = hb (nth 1 m1 [])) by (rewrite <- Hm; exact (map_nth hb m1 [] 1)).
      rewrite Hn. unfold splice. rewrite !map_app, firstn_map, skipn_map, map_length. reflexivity.
  Qed.
  Lemma pass_hom : forall sw n tk aux ks,
    hb (pass B1 body1 sw n tk aux ks) = pass B2 body2 sw n (hb tk) (hm aux) (hb ks).
  Proof.
    intros sw n tk aux ks. unfold pass.
    pose proof (loop_win_hom sw n 0 (tk :: aux) ks) as H. cbn [map] in H. rewrite <- H. reflexivity.
  Qed.
End LoopHom.

(* ================================================================================================== *)
(* 2. the loop on a schedule image = the model's pass                                                   *)
(* ================================================================================================== *)
Section LoopBridge.
  Variable E : Type.                                         (* a schedule slot of the model *)
  Variable hbE : E -> list (list bool).                      (* its byte image, sw bytes *)
  Variable sw : nat.
  Hypothesis hbE_len : forall e, length (hbE e) = sw.
  Variable T : Type.                                         (* the loop-carried state of the model (tk, rc) *)
  Variable enc : T -> mem bool.                              (* as regions  tk :: aux *)
  Variable body : mem bool -> mem bool.
  Variable nextT : T -> T.
  Variable updT : T -> E -> E.
  Hypothesis enc_ne : forall t, enc t <> [].
  Hypothesis body_step : forall t e pre, length pre = sw ->
    body (nth 0 (enc t) [] :: (pre ++ hbE e) :: tl (enc t))
    = nth 0 (enc (nextT t)) [] :: (pre ++ hbE (updT t e)) :: tl (enc (nextT t)).

  Fixpoint loopT (n : nat) (t : T) (sched : list E) : list E :=
    match n, sched with
    | S n', e :: rest => updT t e :: loopT n' (nextT t) rest
    | _, _ => sched
    end.
  Fixpoint iterT (n : nat) (t : T) : T := match n with O => t | S n' => iterT n' (nextT t) end.

  Lemma loop_win_image : forall n i t front sched back,
    length front = sw * i + sw -> n <= length sched ->
    loop_win bool body sw n i (enc t) (front ++ concat (map hbE sched) ++ back)
    = (enc (iterT n t), front ++ concat (map hbE (loopT n t sched)) ++ back).
  Proof.
    induction n as [|n IH]; intros i t front sched back Hf Hn; [reflexivity|].
    destruct sched as [|e rest]; [cbn [length] in Hn; lia|].
    cbn [loop_win loopT iterT map concat].
    (* the window: the last sw bytes of front, then the slot *)
    set (pre := skipn (sw * i) front).
    assert (Hpre : length pre = sw) by (unfold pre; rewrite skipn_length; lia).
    assert (Hw : firstn (2 * sw) (skipn (sw * i) (front ++ (hbE e ++ concat (map hbE rest)) ++ back)) = pre ++ hbE e).
    { rewrite skipn_app. replace (sw * i - length front) with 0 by lia. cbn [skipn]. fold pre.
      rewrite firstn_app, Hpre. replace (2 * sw - sw) with sw by lia.
      rewrite firstn_all2 by lia. f_equal.
      rewrite <- app_assoc, firstn_app, hbE_len, Nat.sub_diag. cbn [firstn]. rewrite app_nil_r. apply firstn_all2. rewrite hbE_len. lia. }
    rewrite Hw, (body_step t e pre Hpre). cbn [nth skipn].
    assert (Hsp : splice bool (front ++ (hbE e ++ concat (map hbE rest)) ++ back) (sw * i) (pre ++ hbE (updT t e))
                  = (front ++ hbE (updT t e)) ++ concat (map hbE rest) ++ back).
    { unfold splice. rewrite firstn_app. replace (sw * i - length front) with 0 by lia. cbn [firstn]. rewrite app_nil_r.
      rewrite app_length, Hpre, hbE_len.
      rewrite skipn_app. replace (sw * i + (sw + sw) - length front) with sw by lia.
      rewrite (skipn_all2 front) by lia. cbn [app].
      replace (skipn sw ((hbE e ++ concat (map hbE rest)) ++ back)) with (concat (map hbE rest) ++ back).
      2:{ rewrite <- (app_assoc (hbE e)). rewrite skipn_app, hbE_len, Nat.sub_diag, (skipn_all2 (hbE e)) by (rewrite hbE_len; lia). reflexivity. }
      rewrite <- (firstn_skipn (sw * i) front) at 2. fold pre. rewrite <- !app_assoc. reflexivity. }
    rewrite Hsp.
    assert (Hst : nth 0 (enc (nextT t)) [] :: tl (enc (nextT t)) = enc (nextT t)).
    { destruct (enc (nextT t)) as [|x l] eqn:Ee; [exfalso; apply (enc_ne (nextT t)); exact Ee | reflexivity]. }
    rewrite Hst.
    rewrite (IH (S i) (nextT t) (front ++ hbE (updT t e)) rest back).
    - rewrite <- !app_assoc. reflexivity.
    - rewrite app_length, hbE_len. lia.
    - cbn [length] in Hn. lia.
  Qed.
End LoopBridge.

(* ================================================================================================== *)
(* 3. whole key-schedule functions, generic in the cipher (bodies, slot width, block size, round counts)  *)
(* ================================================================================================== *)
Section KeyG.
  Variable B : Type.
  Variables (b0 b1 : B).
  Variable body1 : bool -> mem B -> mem B.                    (* set_tk1 body, plain / tweaked *)
  Variables (body2 body3 bodyx : mem B -> mem B).             (* set_tk2, set_tk3, xor_tk1 bodies *)
  Variables (sw bs ksz R1 R2 R3 : nat).                       (* slot bytes, block bytes, sizeof(Key_t), rounds for 1/2/3 tweakey blocks *)
  Notation reg := (reg B).
  Definition zbyte : list B := repeat b0 8.
  Definition padb (n : nat) (l : list (list B)) : list (list B) := firstn n (l ++ repeat zbyte n).
  Definition rc0 : mem B := [[zbyte]].
  Definition set_rounds (R : nat) (ks : list (list B)) : list (list B) :=
    splice B ks 0 (bytes_of B b0 4 (const_bits B b0 b1 32 (N.of_nat R))).

  Notation p1 tw := (pass B (body1 tw) sw).
  Notation p2 := (pass B body2 sw).
  Notation p3 := (pass B body3 sw).
  Notation px := (pass B bodyx sw).

  (* skinny*_set_key_inner; [key] has sz bytes, [tweak] bs *)
  Definition key_sched (sz : nat) (tweaked : bool) (key tweak : list (list B)) (ks : list (list B)) : list (list B) :=
    if negb tweaked then
      if Nat.eqb sz bs then p1 false R1 (padb bs key) rc0 (set_rounds R1 ks)
      else if Nat.leb sz (2 * bs) then
        p2 R2 (padb bs (skipn bs key)) [] (p1 false R2 (firstn bs key) rc0 (set_rounds R2 ks))
      else
        p3 R3 (padb bs (skipn (2 * bs) key)) []
           (p2 R3 (firstn bs (skipn bs key)) [] (p1 false R3 (firstn bs key) rc0 (set_rounds R3 ks)))
    else
      if Nat.eqb sz bs then p2 R2 (padb bs key) [] (p1 true R2 tweak rc0 (set_rounds R2 ks))
      else p3 R3 (padb bs (skipn bs key)) [] (p2 R3 (firstn bs key) [] (p1 true R3 tweak rc0 (set_rounds R3 ks))).

  (* observable regions: the schedule object and the (unchanged) key / tweak buffer *)
  Definition w_set_key (sz : nat) (m : mem B) : mem B :=
    [key_sched sz false (firstn sz (reg m 1)) [] (reg m 0); reg m 1].
  (* Skinny*TweakedKey_t = the schedule (ksz bytes) followed by the bs-byte tweak *)
  Definition w_set_tweaked_key (sz : nat) (m : mem B) : mem B :=
    let z := repeat zbyte bs in
    [key_sched sz true (firstn sz (reg m 1)) z (splice B (reg m 0) ksz z); reg m 1].
  Definition w_set_tweak (R tsz : nat) (null : bool) (m : mem B) : mem B :=
    let ks := reg m 0 in
    let prev := firstn bs (skipn ksz ks) in
    let newtw := if null then repeat zbyte bs else padb bs (firstn tsz (reg m 1)) in
    [px R newtw [] (px R prev [] (splice B ks ksz newtw)); reg m 1].
End KeyG.

Section KeyGHom.
  Variables B1 B2 : Type.
  Variables (z1 o1 : B1) (z2 o2 : B2).
  Variable h : B1 -> B2.
  Hypothesis h_z : h z1 = z2.
  Hypothesis h_o : h o1 = o2.
  Notation hb := (map (map h)).
  Notation hm := (map (map (map h))).
  Variables (b1a : bool -> mem B1 -> mem B1) (b2a b3a bxa : mem B1 -> mem B1).
  Variables (b1b : bool -> mem B2 -> mem B2) (b2b b3b bxb : mem B2 -> mem B2).
  Hypothesis H1 : forall tw m, hm (b1a tw m) = b1b tw (hm m).
  Hypothesis H2 : forall m, hm (b2a m) = b2b (hm m).
  Hypothesis H3 : forall m, hm (b3a m) = b3b (hm m).
  Hypothesis Hx : forall m, hm (bxa m) = bxb (hm m).
  Variables (sw bs ksz R1 R2 R3 : nat).

  Lemma nth_hm' : forall r (m : mem B1), nth r (hm m) [] = hb (nth r m []).
  Proof. intros r m. exact (map_nth hb m [] r). Qed.
  Lemma hb_zbyte : map h (zbyte B1 z1) = zbyte B2 z2.
  Proof. unfold zbyte. rewrite map_repeat', h_z. reflexivity. Qed.
  Lemma hb_padb : forall n l, hb (padb B1 z1 n l) = padb B2 z2 n (hb l).
  Proof. intros n l. unfold padb. rewrite <- firstn_map, map_app, map_repeat', hb_zbyte. reflexivity. Qed.
  Lemma hb_zeros : forall n, hb (repeat (zbyte B1 z1) n) = repeat (zbyte B2 z2) n.
  Proof. intros n. rewrite map_repeat', hb_zbyte. reflexivity. Qed.
  Lemma hm_rc0 : hm (rc0 B1 z1) = rc0 B2 z2.
  Proof. unfold rc0. cbn [map]. rewrite hb_zbyte. reflexivity. Qed.
  Lemma hb_splice' : forall bytes off new, hb (splice B1 bytes off new) = splice B2 (hb bytes) off (hb new).
  Proof. intros. unfold splice. rewrite !map_app, map_length, firstn_map, skipn_map. reflexivity. Qed.
  Lemma hb_set_rounds : forall R ks, hb (set_rounds B1 z1 o1 R ks) = set_rounds B2 z2 o2 R (hb ks).
  Proof.
    intros R ks. unfold set_rounds. rewrite hb_splice'. f_equal.
    rewrite (bytes_of_hom B1 B2 z1 z2 h h_z), (const_bits_hom B1 B2 z1 o1 z2 o2 h h_z h_o). reflexivity.
  Qed.

  Lemma p1_hom : forall tw n tk ks,
    hb (pass B1 (b1a tw) sw n tk (rc0 B1 z1) ks) = pass B2 (b1b tw) sw n (hb tk) (rc0 B2 z2) (hb ks).
  Proof. intros tw n tk ks. rewrite (pass_hom B1 B2 h (b1a tw) (b1b tw) (H1 tw)), hm_rc0. reflexivity. Qed.
  Lemma p2_hom : forall n tk ks, hb (pass B1 b2a sw n tk [] ks) = pass B2 b2b sw n (hb tk) [] (hb ks).
  Proof. intros n tk ks. exact (pass_hom B1 B2 h b2a b2b H2 sw n tk [] ks). Qed.
  Lemma p3_hom : forall n tk ks, hb (pass B1 b3a sw n tk [] ks) = pass B2 b3b sw n (hb tk) [] (hb ks).
  Proof. intros n tk ks. exact (pass_hom B1 B2 h b3a b3b H3 sw n tk [] ks). Qed.
  Lemma px_hom : forall n tk ks, hb (pass B1 bxa sw n tk [] ks) = pass B2 bxb sw n (hb tk) [] (hb ks).
  Proof. intros n tk ks. exact (pass_hom B1 B2 h bxa bxb Hx sw n tk [] ks). Qed.

  Lemma key_sched_hom : forall sz tw key tweak ks,
    hb (key_sched B1 z1 o1 b1a b2a b3a sw bs R1 R2 R3 sz tw key tweak ks)
    = key_sched B2 z2 o2 b1b b2b b3b sw bs R1 R2 R3 sz tw (hb key) (hb tweak) (hb ks).
  Proof.
    intros sz tw key tweak ks. unfold key_sched.
    destruct (negb tw); [destruct (Nat.eqb sz bs); [|destruct (Nat.leb sz (2 * bs))] | destruct (Nat.eqb sz bs)].
    - rewrite p1_hom, hb_padb, hb_set_rounds. reflexivity.
    - rewrite p2_hom, p1_hom, hb_padb, hb_set_rounds. repeat (rewrite firstn_map || rewrite skipn_map). reflexivity.
    - rewrite p3_hom, p2_hom, p1_hom, hb_padb, hb_set_rounds. repeat (rewrite firstn_map || rewrite skipn_map). reflexivity.
    - rewrite p2_hom, p1_hom, hb_padb, hb_set_rounds. reflexivity.
    - rewrite p3_hom, p2_hom, p1_hom, hb_padb, hb_set_rounds. repeat (rewrite firstn_map || rewrite skipn_map). reflexivity.
  Qed.

  Lemma w_set_key_hom : forall sz m,
    hm (w_set_key B1 z1 o1 b1a b2a b3a sw bs R1 R2 R3 sz m) = w_set_key B2 z2 o2 b1b b2b b3b sw bs R1 R2 R3 sz (hm m).
  Proof.
    intros sz m. unfold w_set_key. cbn [map]. rewrite key_sched_hom. unfold reg.
    rewrite !nth_hm', firstn_map. reflexivity.
  Qed.
  Lemma w_set_tweaked_key_hom : forall sz m,
    hm (w_set_tweaked_key B1 z1 o1 b1a b2a b3a sw bs ksz R1 R2 R3 sz m)
    = w_set_tweaked_key B2 z2 o2 b1b b2b b3b sw bs ksz R1 R2 R3 sz (hm m).
  Proof.
    intros sz m. unfold w_set_tweaked_key. cbv zeta. cbn [map]. rewrite key_sched_hom, hb_splice', hb_zeros. unfold reg.
    rewrite !nth_hm', firstn_map. reflexivity.
  Qed.
  Lemma w_set_tweak_hom : forall R tsz null m,
    hm (w_set_tweak B1 z1 bxa sw bs ksz R tsz null m) = w_set_tweak B2 z2 bxb sw bs ksz R tsz null (hm m).
  Proof.
    intros R tsz null m. unfold w_set_tweak. cbv zeta. cbn [map]. rewrite !px_hom, hb_splice'. unfold reg.
    rewrite !nth_hm'.
    destruct null.
    - rewrite !hb_zeros, skipn_map, firstn_map. reflexivity.
    - rewrite !hb_padb, skipn_map, !firstn_map. reflexivity.
  Qed.
End KeyGHom.

(* ---- instances at the polynomial / boolean carriers ---- *)
Section Inst.
  Variable B : Type.
  Variables (bx : B -> B -> B) (b0 b1 : B).
  Definition w_set_key128 := w_set_key B b0 b1 (k128_tk1_body B bx b0 b1) (k128_tk2_body B bx b0) (k128_tk3_body B bx b0) 8 16 40 48 56.
  Definition w_set_tweaked_key128 :=
    w_set_tweaked_key B b0 b1 (k128_tk1_body B bx b0 b1) (k128_tk2_body B bx b0) (k128_tk3_body B bx b0) 8 16 456 40 48 56.
  Definition w_set_tweak128 := w_set_tweak B b0 (k128_xor_tk1_body B bx b0) 8 16 456.
  Definition w_set_key64 := w_set_key B b0 b1 (k64_tk1_body B bx b0 b1) (k64_tk2_body B bx b0) (k64_tk3_body B bx b0) 4 8 32 36 40.
  Definition w_set_tweaked_key64 :=
    w_set_tweaked_key B b0 b1 (k64_tk1_body B bx b0 b1) (k64_tk2_body B bx b0) (k64_tk3_body B bx b0) 4 8 164 32 36 40.
  Definition w_set_tweak64 := w_set_tweak B b0 (k64_xor_tk1_body B bx b0) 4 8 164.
End Inst.

Ltac key_homU L :=
  intros rho m; unfold mmap;
  change (map (vmap rho)) with (map (map (peval rho)));
  apply L; first [ exact (peval_pzero rho) | exact (peval_pone rho)
                 | intros; apply k128_tk1_body_homG; first [exact (peval_pxor rho) | exact (peval_pzero rho) | exact (peval_pone rho)]
                 | intros; apply k64_tk1_body_homG; first [exact (peval_pxor rho) | exact (peval_pzero rho) | exact (peval_pone rho)]
                 | intros; first [apply k128_tk2_body_homG | apply k128_tk3_body_homG | apply k128_xor_tk1_body_homG
                                 | apply k64_tk2_body_homG | apply k64_tk3_body_homG | apply k64_xor_tk1_body_homG];
                   first [exact (peval_pxor rho) | exact (peval_pzero rho)] ].

Lemma w_set_key128_homU : forall sz, homU (w_set_key128 poly pxor pzero pone sz) (w_set_key128 bool xorb false true sz).
Proof. intros sz. key_homU w_set_key_hom. Qed.
Lemma w_set_tweaked_key128_homU : forall sz,
  homU (w_set_tweaked_key128 poly pxor pzero pone sz) (w_set_tweaked_key128 bool xorb false true sz).
Proof. intros sz. key_homU w_set_tweaked_key_hom. Qed.
Lemma w_set_tweak128_homU : forall R tsz null,
  homU (w_set_tweak128 poly pxor pzero R tsz null) (w_set_tweak128 bool xorb false R tsz null).
Proof. intros R tsz null. key_homU w_set_tweak_hom. Qed.
Lemma w_set_key64_homU : forall sz, homU (w_set_key64 poly pxor pzero pone sz) (w_set_key64 bool xorb false true sz).
Proof. intros sz. key_homU w_set_key_hom. Qed.
Lemma w_set_tweaked_key64_homU : forall sz,
  homU (w_set_tweaked_key64 poly pxor pzero pone sz) (w_set_tweaked_key64 bool xorb false true sz).
Proof. intros sz. key_homU w_set_tweaked_key_hom. Qed.
Lemma w_set_tweak64_homU : forall R tsz null,
  homU (w_set_tweak64 poly pxor pzero R tsz null) (w_set_tweak64 bool xorb false R tsz null).
Proof. intros R tsz null. key_homU w_set_tweak_hom. Qed.

(* ================================================================================================== *)
(* 4. the final form of a whole-function obligation checked on its observable regions                   *)
(* ================================================================================================== *)
From Skinny Require Import SIR SIRProofs.
Theorem obs_final : forall fields code fuel pl sh pl' sh' c t sizes obs sP sB,
  fields_okb fields = true ->
  flat fields fuel pl sh code = Some (pl', sh', c, t) ->
  homU sP sB ->
  check_obs (callf_spec poly pxor pand pzero pone) sizes obs c sP = true ->
  forall m, shaped sizes m -> Inv fields sh m ->
  interp fields (callf_spec bool xorb andb false true) fuel pl (m, []) code
    = Some (pl', execB (callf_spec bool xorb andb false true) c (m, []), t)
  /\ proj obs (fst (execB (callf_spec bool xorb andb false true) c (m, []))) = sB m.
Proof.
  intros fields code fuel pl sh pl' sh' c t sizes obs sP sB Hf Hfl Hh Hk m Hm HI.
  destruct (fields_okb_sound fields Hf) as [Hd Hn]. split.
  - apply (interp_of_flat fields _ Hd Hn fuel code pl sh m pl' sh' c t HI Hfl).
  - apply (check_obs_sound _ _ sizes obs c sP sB callf_spec_hom (homU_spec_hom sizes sP sB Hh) Hk m Hm).
Qed.
(* a rejected call: no code at all, hence no memory access and an unchanged memory *)
Theorem reject_final : forall fields code fuel pl sh pl' sh' t,
  fields_okb fields = true ->
  flat fields fuel pl sh code = Some (pl', sh', [], t) ->
  forall m, Inv fields sh m ->
  interp fields (callf_spec bool xorb andb false true) fuel pl (m, []) code = Some (pl', (m, []), t).
Proof.
  intros fields code fuel pl sh pl' sh' t Hf Hfl m HI.
  destruct (fields_okb_sound fields Hf) as [Hd Hn].
  apply (interp_of_flat fields _ Hd Hn fuel code pl sh m pl' sh' [] t HI Hfl).
Qed.

(* ================================================================================================== *)
(* 5. the key-schedule specification on a schedule image = the model's passes                           *)
(* ================================================================================================== *)
Lemma loopT_is_sched_loop : forall (C : Type) (upd : half C -> half C -> rc6 -> half C) (next : state C -> state C) n tk r sched,
  loopT (half C) (state C * rc6) (fun t => (next (fst t), rc_next (snd t)))
        (fun t e => upd e (rows01 C (fst t)) (rc_next (snd t))) n (tk, r) sched
  = sched_loop C n upd next tk r sched.
Proof.
  intros C upd next n. induction n as [|n IH]; intros tk r sched; [destruct sched; reflexivity|].
  destruct sched as [|e rest]; [reflexivity|]. cbn [loopT sched_loop fst snd]. f_equal. apply IH.
Qed.

Section Model128.
  Notation hb := (KernelSpecs2.half_bytes128 bool).
  Notation T := (state byte * rc6)%type.
  Definition encx128 (t : T) : mem bool := [reg_of_state128 bool (fst t)].
  Definition enc1_128 (t : T) : mem bool := [reg_of_state128 bool (fst t); [bits_of_rc (snd t)]].

  Lemma passx128_image : forall body next,
    (forall tk slot pre, length pre = 8 ->
       body [reg_of_state128 bool tk; pre ++ hb slot ++ []]
       = [reg_of_state128 bool (next tk); pre ++ hb (hxor byte bxor8 slot (rows01 byte tk)) ++ []]) ->
    forall n tk hdr sched back, length hdr = 8 -> n <= length sched ->
    pass bool body 8 n (reg_of_state128 bool tk) [] (hdr ++ concat (map hb sched) ++ back)
    = hdr ++ concat (map hb (sched_loop byte n (fun e k _ => hxor byte bxor8 e k) next tk rc_init sched)) ++ back.
  Proof.
    intros body next Hstep n tk hdr sched back Hh Hn. unfold pass.
    change (reg_of_state128 bool tk :: []) with (encx128 (tk, rc_init)).
    rewrite (loop_win_image (half byte) hb 8 hb128_len T encx128 body
               (fun t => (next (fst t), rc_next (snd t))) (fun t e => hxor byte bxor8 e (rows01 byte (fst t)))).
    - cbn [snd]. rewrite (loopT_is_sched_loop byte (fun e k _ => hxor byte bxor8 e k) next). reflexivity.
    - intros t. discriminate.
    - intros [tk0 r0] e pre Hp. cbn [encx128 fst snd nth tl].
      pose proof (Hstep tk0 e pre Hp) as H. rewrite !app_nil_r in H. exact H.
    - rewrite Hh. lia.
    - exact Hn.
  Qed.

  Lemma pass1_128_image : forall tw n tk hdr sched back, length hdr = 8 -> n <= length sched ->
    pass bool (k128_tk1_body bool xorb false true tw) 8 n (reg_of_state128 bool tk) (rc0 bool false)
         (hdr ++ concat (map hb sched) ++ back)
    = hdr ++ concat (map hb (sched_loop byte n (fun _ k r => hxor byte bxor8 k (const_half byte cnib8 byte0 tw r))
                                        (next_tk1 byte) tk rc_init sched)) ++ back.
  Proof.
    intros tw n tk hdr sched back Hh Hn. unfold pass.
    change (reg_of_state128 bool tk :: rc0 bool false) with (enc1_128 (tk, rc_init)).
    rewrite (loop_win_image (half byte) hb 8 hb128_len T enc1_128 (k128_tk1_body bool xorb false true tw)
               (fun t => (next_tk1 byte (fst t), rc_next (snd t)))
               (fun t e => hxor byte bxor8 (rows01 byte (fst t)) (const_half byte cnib8 byte0 tw (rc_next (snd t))))).
    - cbn [snd].
      rewrite (loopT_is_sched_loop byte (fun _ k r => hxor byte bxor8 k (const_half byte cnib8 byte0 tw r)) (next_tk1 byte)).
      reflexivity.
    - intros t. discriminate.
    - intros [tk0 r0] e pre Hp. cbn [enc1_128 fst snd nth tl].
      pose proof (k128_tk1_body_step tw tk0 e pre [] r0 Hp) as H. rewrite !app_nil_r in H. exact H.
    - rewrite Hh. lia.
    - exact Hn.
  Qed.
End Model128.

Section Model64.
  Notation hb := (KernelSpecs2.half_bytes64 bool).
  Notation T := (state nib * rc6)%type.
  Definition encx64 (t : T) : mem bool := [reg_of_state64 bool (fst t)].
  Definition enc1_64 (t : T) : mem bool := [reg_of_state64 bool (fst t); [bits_of_rc (snd t)]].

  Lemma passx64_image : forall body next,
    (forall tk slot pre, length pre = 4 ->
       body [reg_of_state64 bool tk; pre ++ hb slot ++ []]
       = [reg_of_state64 bool (next tk); pre ++ hb (hxor nib bxor4 slot (rows01 nib tk)) ++ []]) ->
    forall n tk hdr sched back, length hdr = 4 -> n <= length sched ->
    pass bool body 4 n (reg_of_state64 bool tk) [] (hdr ++ concat (map hb sched) ++ back)
    = hdr ++ concat (map hb (sched_loop nib n (fun e k _ => hxor nib bxor4 e k) next tk rc_init sched)) ++ back.
  Proof.
    intros body next Hstep n tk hdr sched back Hh Hn. unfold pass.
    change (reg_of_state64 bool tk :: []) with (encx64 (tk, rc_init)).
    rewrite (loop_win_image (half nib) hb 4 hb64_len T encx64 body
               (fun t => (next (fst t), rc_next (snd t))) (fun t e => hxor nib bxor4 e (rows01 nib (fst t)))).
    - cbn [snd]. rewrite (loopT_is_sched_loop nib (fun e k _ => hxor nib bxor4 e k) next). reflexivity.
    - intros t. discriminate.
    - intros [tk0 r0] e pre Hp. cbn [encx64 fst snd nth tl].
      pose proof (Hstep tk0 e pre Hp) as H. rewrite !app_nil_r in H. exact H.
    - rewrite Hh. lia.
    - exact Hn.
  Qed.

  Lemma pass1_64_image : forall tw n tk hdr sched back, length hdr = 4 -> n <= length sched ->
    pass bool (k64_tk1_body bool xorb false true tw) 4 n (reg_of_state64 bool tk) (rc0 bool false)
         (hdr ++ concat (map hb sched) ++ back)
    = hdr ++ concat (map hb (sched_loop nib n (fun _ k r => hxor nib bxor4 k (const_half nib cnib4 nib0 tw r))
                                        (next_tk1 nib) tk rc_init sched)) ++ back.
  Proof.
    intros tw n tk hdr sched back Hh Hn. unfold pass.
    change (reg_of_state64 bool tk :: rc0 bool false) with (enc1_64 (tk, rc_init)).
    rewrite (loop_win_image (half nib) hb 4 hb64_len T enc1_64 (k64_tk1_body bool xorb false true tw)
               (fun t => (next_tk1 nib (fst t), rc_next (snd t)))
               (fun t e => hxor nib bxor4 (rows01 nib (fst t)) (const_half nib cnib4 nib0 tw (rc_next (snd t))))).
    - cbn [snd].
      rewrite (loopT_is_sched_loop nib (fun _ k r => hxor nib bxor4 k (const_half nib cnib4 nib0 tw r)) (next_tk1 nib)).
      reflexivity.
    - intros t. discriminate.
    - intros [tk0 r0] e pre Hp. cbn [enc1_64 fst snd nth tl].
      pose proof (k64_tk1_body_step tw tk0 e pre [] r0 Hp) as H. rewrite !app_nil_r in H. exact H.
    - rewrite Hh. lia.
    - exact Hn.
  Qed.
End Model64.

(* ---- set_key_inner (no tweak) on an image ---- *)
From Skinny Require Import ProofsSkinny.
Notation bitsb := (map (bits_of_c8 bool)).
Definition rbytes (R : nat) : list (list bool) := bytes_of bool false 4 (const_bits bool false true 32 (N.of_nat R)).

Lemma sched_loop_len : forall (C : Type) upd next n tk r (sched : list (half C)),
  length (sched_loop C n upd next tk r sched) = length sched.
Proof.
  intros C upd next n. induction n as [|n IH]; intros tk r sched; [destruct sched; reflexivity|].
  destruct sched as [|e rest]; [reflexivity|]. cbn [sched_loop length]. rewrite IH. reflexivity.
Qed.
Lemma bits_pad_to : forall n (l : list byte), bitsb (pad_to n l) = padb bool false n (bitsb l).
Proof.
  intros n l. unfold pad_to, padb, zeros. rewrite <- firstn_map, map_app, map_repeat'. reflexivity.
Qed.
Lemma rbytes_len : forall R, length (rbytes R) = 4.
Proof. intros R. reflexivity. Qed.
Lemma set_rounds_image : forall R (hdr rest : list (list bool)), length hdr = 8 ->
  set_rounds bool false true R (hdr ++ rest) = (rbytes R ++ skipn 4 hdr) ++ rest.
Proof.
  intros R hdr rest Hh. unfold set_rounds, splice. cbn [firstn app plus]. fold (rbytes R). rewrite rbytes_len.
  rewrite skipn_app. replace (4 - length hdr) with 0 by lia. cbn [skipn]. rewrite <- app_assoc. reflexivity.
Qed.
Lemma hdr'_len : forall R (hdr : list (list bool)), length hdr = 8 -> length (rbytes R ++ skipn 4 hdr) = 8.
Proof. intros R hdr H. rewrite app_length, rbytes_len, skipn_length. lia. Qed.

Section KeyModel128.
  Notation hb := (KernelSpecs2.half_bytes128 bool).
  Notation l2 := (lfsr2_8 bool xorb).
  Notation l3 := (lfsr3_8 bool xorb).
  Notation KS := (key_sched bool false true (k128_tk1_body bool xorb false true) (k128_tk2_body bool xorb false)
                            (k128_tk3_body bool xorb false) 8 16 40 48 56).

  Lemma tk_region128 : forall (l : list byte), padb bool false 16 (bitsb l) = reg_of_state128 bool (load128 (pad_to 16 l)).
  Proof.
    intros l. rewrite <- bits_pad_to. symmetry. apply reg_of_state128_load128. apply pad_to_length.
  Qed.
  Lemma tk_region128_full : forall (l : list byte), length l = 16 -> bitsb l = reg_of_state128 bool (load128 (pad_to 16 l)).
  Proof. intros l H. rewrite (pad_to_id 16 l H). symmetry. apply reg_of_state128_load128. exact H. Qed.

  Lemma bits_firstn : forall n (l : list byte), firstn n (bitsb l) = bitsb (firstn n l).
  Proof. intros n l. apply firstn_map. Qed.
  Lemma bits_skipn : forall n (l : list byte), skipn n (bitsb l) = bitsb (skipn n l).
  Proof. intros n l. apply skipn_map. Qed.

  Theorem key_sched128_model : forall (key hdr : list byte) (sched : list (half byte)) back r0,
    16 <= length key <= 48 -> length hdr = 8 -> length sched = 56 ->
    let ks' := set_key_inner byte bxor8 cnib8 l2 l3 16 load128 byte0 m128_rounds {| ks_rounds := r0; ks_sched := sched |} key None in
    KS (length key) false (bitsb key) [] (bitsb hdr ++ concat (map hb sched) ++ back)
    = (rbytes (N.to_nat (ks_rounds byte ks')) ++ skipn 4 (bitsb hdr)) ++ concat (map hb (ks_sched byte ks')) ++ back.
  Proof.
    intros key hdr sched back r0 Hk Hh Hs. cbv zeta.
    assert (Hh' : length (bitsb hdr) = 8) by (rewrite map_length; exact Hh).
    assert (L40 : 40 <= length sched) by (replace (length sched) with 56 by (symmetry; exact Hs); repeat constructor).
    assert (L48 : 48 <= length sched) by (replace (length sched) with 56 by (symmetry; exact Hs); repeat constructor).
    assert (L56 : 56 <= length sched) by (replace (length sched) with 56 by (symmetry; exact Hs); repeat constructor).
    unfold key_sched, set_key_inner. cbn [negb ks_sched].
    destruct (Nat.eqb (length key) 16) eqn:E1; [|destruct (Nat.leb (length key) (2 * 16)) eqn:E2].
    - cbn [mk_ks ks_rounds ks_sched]. rewrite Nat2N.id.
      change (m128_rounds 1) with 40. rewrite set_rounds_image by exact Hh'.
      rewrite tk_region128.
      rewrite (pass1_128_image false 40 _ _ sched back (hdr'_len 40 _ Hh') L40).
      reflexivity.
    - cbn [mk_ks ks_rounds ks_sched]. rewrite Nat2N.id.
      change (m128_rounds 2) with 48. rewrite set_rounds_image by exact Hh'.
      rewrite (bits_skipn 16 key), (bits_firstn 16 key), tk_region128.
      rewrite (tk_region128_full (firstn 16 key)) by (rewrite firstn_length; lia).
      rewrite (pass1_128_image false 48 _ _ sched back (hdr'_len 48 _ Hh') L48).
      rewrite (passx128_image (k128_tk2_body bool xorb false) (next_tk2 byte l2)
                 (fun tk slot pre Hp => k128_tk2_body_step tk slot pre [] Hp) 48 _ _ _ back (hdr'_len 48 _ Hh'))
        by (eapply Nat.le_trans; [exact L48 | apply Nat.eq_le_incl; symmetry; apply sched_loop_len]).
      reflexivity.
    - cbn [mk_ks ks_rounds ks_sched]. rewrite Nat2N.id.
      change (m128_rounds 3) with 56. rewrite set_rounds_image by exact Hh'.
      rewrite (bits_skipn (2 * 16) key), (bits_skipn 16 key), (bits_firstn 16 key), (bits_firstn 16 (skipn 16 key)), tk_region128.
      rewrite (tk_region128_full (firstn 16 key)) by (rewrite firstn_length; lia).
      rewrite (tk_region128_full (firstn 16 (skipn 16 key))) by (rewrite firstn_length, skipn_length; apply Nat.leb_gt in E2; lia).
      rewrite (pass1_128_image false 56 _ _ sched back (hdr'_len 56 _ Hh') L56).
      rewrite (passx128_image (k128_tk2_body bool xorb false) (next_tk2 byte l2)
                 (fun tk slot pre Hp => k128_tk2_body_step tk slot pre [] Hp) 56 _ _ _ back (hdr'_len 56 _ Hh'))
        by (eapply Nat.le_trans; [exact L56 | apply Nat.eq_le_incl; symmetry; apply sched_loop_len]).
      rewrite (passx128_image (k128_tk3_body bool xorb false) (next_tk3 byte l3)
                 (fun tk slot pre Hp => k128_tk3_body_step tk slot pre [] Hp) 56 _ _ _ back (hdr'_len 56 _ Hh'))
        by (eapply Nat.le_trans; [exact L56 | apply Nat.eq_le_incl; symmetry; etransitivity; [apply sched_loop_len | apply sched_loop_len]]).
      reflexivity.
  Qed.
End KeyModel128.

(* the observable result of skinny128_set_key(ks, key, size) on the byte image of a model schedule is the byte image of the
   model's (hence, ProofsSkinny.m128_set_key_spec / _padding, the specification's) result, for every accepted size *)
Theorem w_set_key128_model : forall (key hdr : list byte) (sched : list (half byte)) back r0 rest,
  16 <= length key <= 48 -> length hdr = 8 -> length sched = 56 ->
  let res := m128_set_key {| ks_rounds := r0; ks_sched := sched |} (Some key) (N.of_nat (length key)) in
  fst res = 1%N /\
  w_set_key128 bool xorb false true (length key)
    ((bitsb hdr ++ concat (map (KernelSpecs2.half_bytes128 bool) sched) ++ back) :: bitsb key :: rest)
  = [ (rbytes (N.to_nat (ks_rounds byte (snd res))) ++ skipn 4 (bitsb hdr))
        ++ concat (map (KernelSpecs2.half_bytes128 bool) (ks_sched byte (snd res))) ++ back;
      bitsb key ].
Proof.
  intros key hdr sched back r0 rest Hk Hh Hs. cbv zeta.
  unfold m128_set_key, set_key.
  assert (Hok : size_ok 16 (3 * 16) (N.of_nat (length key)) = true).
  { unfold size_ok. apply andb_true_iff. split; apply N.leb_le; lia. }
  rewrite Hok. cbn [fst snd]. split; [reflexivity|].
  rewrite Nat2N.id, (pad_to_id (length key) key eq_refl).
  unfold w_set_key128, w_set_key. unfold reg. cbn [nth].
  rewrite firstn_all2 by (apply Nat.eq_le_incl, map_length).
  f_equal. exact (key_sched128_model key hdr sched back r0 Hk Hh Hs).
Qed.
Print Assumptions w_set_key128_model.

Lemma set_rounds_image4 : forall R (hdr rest : list (list bool)), length hdr = 4 ->
  set_rounds bool false true R (hdr ++ rest) = (rbytes R ++ skipn 4 hdr) ++ rest.
Proof.
  intros R hdr rest Hh. unfold set_rounds, splice. cbn [firstn app plus]. fold (rbytes R). rewrite rbytes_len.
  rewrite skipn_app. replace (4 - length hdr) with 0 by lia. cbn [skipn]. rewrite <- app_assoc. reflexivity.
Qed.
Lemma hdr4'_len : forall R (hdr : list (list bool)), length hdr = 4 -> length (rbytes R ++ skipn 4 hdr) = 4.
Proof. intros R hdr H. rewrite app_length, rbytes_len, skipn_length. lia. Qed.

Section KeyModel64.
  Notation hb := (KernelSpecs2.half_bytes64 bool).
  Notation l2 := (lfsr2_4 bool xorb).
  Notation l3 := (lfsr3_4 bool xorb).
  Notation KS := (key_sched bool false true (k64_tk1_body bool xorb false true) (k64_tk2_body bool xorb false)
                            (k64_tk3_body bool xorb false) 4 8 32 36 40).

  Lemma tk_region64 : forall (l : list byte), padb bool false 8 (bitsb l) = reg_of_state64 bool (load64 (pad_to 8 l)).
  Proof.
    intros l. rewrite <- bits_pad_to. symmetry. apply reg_of_state64_load64. apply pad_to_length.
  Qed.
  Lemma tk_region64_full : forall (l : list byte), length l = 8 -> bitsb l = reg_of_state64 bool (load64 (pad_to 8 l)).
  Proof. intros l H. rewrite (pad_to_id 8 l H). symmetry. apply reg_of_state64_load64. exact H. Qed.

  Lemma bits_firstn64 : forall n (l : list byte), firstn n (bitsb l) = bitsb (firstn n l).
  Proof. intros n l. apply firstn_map. Qed.
  Lemma bits_skipn64 : forall n (l : list byte), skipn n (bitsb l) = bitsb (skipn n l).
  Proof. intros n l. apply skipn_map. Qed.

  Lemma le_len1 : forall m upd next n tk r (sched : list (half nib)),
    m <= length sched -> m <= length (sched_loop nib n upd next tk r sched).
  Proof. intros m upd next n tk r sched H. rewrite sched_loop_len. exact H. Qed.
  (* rewriting the innermost pass by explicit congruence: [rewrite] would first try to unify the lemma with the OUTER
     passes and convert their (closed) arguments, i.e. run the 36/40-iteration loops symbolically *)
  Local Tactic Notation "rw_inner_pass" uconstr(lem) :=
    match goal with
    | |- pass bool ?b3 ?w ?n ?t3 ?r3 (pass bool ?b2 ?w ?n ?t2 ?r2 (pass bool ?b1 ?w ?n ?t1 ?r1 ?m)) = _ =>
        etransitivity; [apply (f_equal (fun x => pass bool b3 w n t3 r3 (pass bool b2 w n t2 r2 x))); refine lem|]
    | |- pass bool ?b2 ?w ?n ?t2 ?r2 (pass bool ?b1 ?w ?n ?t1 ?r1 ?m) = _ =>
        etransitivity; [apply (f_equal (fun x => pass bool b2 w n t2 r2 x)); refine lem|]
    | |- pass bool ?b1 ?w ?n ?t1 ?r1 ?m = _ => etransitivity; [refine lem|]
    end.
  Theorem key_sched64_model : forall (key hdr : list byte) (sched : list (half nib)) back r0,
    8 <= length key <= 24 -> length hdr = 4 -> length sched = 40 ->
    let ks' := set_key_inner nib bxor4 cnib4 l2 l3 8 load64 nib0 m64_rounds {| ks_rounds := r0; ks_sched := sched |} key None in
    KS (length key) false (bitsb key) [] (bitsb hdr ++ concat (map hb sched) ++ back)
    = (rbytes (N.to_nat (ks_rounds nib ks')) ++ skipn 4 (bitsb hdr)) ++ concat (map hb (ks_sched nib ks')) ++ back.
  Proof.
    intros key hdr sched back r0 Hk Hh Hs. cbv zeta.
    assert (Hh' : length (bitsb hdr) = 4) by (rewrite map_length; exact Hh).
    assert (L32 : 32 <= length sched) by (replace (length sched) with 40 by (symmetry; exact Hs); repeat constructor).
    assert (L36 : 36 <= length sched) by (replace (length sched) with 40 by (symmetry; exact Hs); repeat constructor).
    assert (L40 : 40 <= length sched) by (replace (length sched) with 40 by (symmetry; exact Hs); repeat constructor).
    unfold key_sched, set_key_inner. cbn [negb ks_sched].
    destruct (Nat.eqb (length key) 8) eqn:E1; [|destruct (Nat.leb (length key) (2 * 8)) eqn:E2].
    - cbn [mk_ks ks_rounds ks_sched]. rewrite Nat2N.id.
      change (m64_rounds 1) with 32. rewrite set_rounds_image4 by exact Hh'.
      rewrite tk_region64.
      rw_inner_pass (pass1_64_image false 32 _ _ sched back (hdr4'_len 32 _ Hh') L32).
      reflexivity.
    - cbn [mk_ks ks_rounds ks_sched]. rewrite Nat2N.id.
      change (m64_rounds 2) with 36. rewrite set_rounds_image4 by exact Hh'.
      rewrite (bits_skipn64 8 key), (bits_firstn64 8 key), tk_region64.
      rewrite (tk_region64_full (firstn 8 key)) by (rewrite firstn_length; lia).
      rw_inner_pass (pass1_64_image false 36 _ _ sched back (hdr4'_len 36 _ Hh') L36).
      rw_inner_pass (passx64_image (k64_tk2_body bool xorb false) (next_tk2 nib l2)
                 (fun tk slot pre Hp => k64_tk2_body_step tk slot pre [] Hp) 36 _ _ _ back (hdr4'_len 36 _ Hh')
                 (le_len1 _ _ _ _ _ _ _ L36)).
      reflexivity.
    - cbn [mk_ks ks_rounds ks_sched]. rewrite Nat2N.id.
      change (m64_rounds 3) with 40. rewrite set_rounds_image4 by exact Hh'.
      rewrite (bits_skipn64 (2 * 8) key), (bits_skipn64 8 key), (bits_firstn64 8 key), (bits_firstn64 8 (skipn 8 key)), tk_region64.
      rewrite (tk_region64_full (firstn 8 key)) by (rewrite firstn_length; lia).
      rewrite (tk_region64_full (firstn 8 (skipn 8 key))) by (rewrite firstn_length, skipn_length; apply Nat.leb_gt in E2; lia).
      rw_inner_pass (pass1_64_image false 40 _ _ sched back (hdr4'_len 40 _ Hh') L40).
      rw_inner_pass (passx64_image (k64_tk2_body bool xorb false) (next_tk2 nib l2)
                 (fun tk slot pre Hp => k64_tk2_body_step tk slot pre [] Hp) 40 _ _ _ back (hdr4'_len 40 _ Hh')
                 (le_len1 _ _ _ _ _ _ _ L40)).
      rw_inner_pass (passx64_image (k64_tk3_body bool xorb false) (next_tk3 nib l3)
                 (fun tk slot pre Hp => k64_tk3_body_step tk slot pre [] Hp) 40 _ _ _ back (hdr4'_len 40 _ Hh')
                 (le_len1 _ _ _ _ _ _ _ (le_len1 _ _ _ _ _ _ _ L40))).
      reflexivity.
  Qed.
End KeyModel64.

(* the observable result of skinny128_set_key(ks, key, size) on the byte image of a model schedule is the byte image of the
   model's (hence, ProofsSkinny.m64_set_key_spec / _padding, the specification's) result, for every accepted size *)
Theorem w_set_key64_model : forall (key hdr : list byte) (sched : list (half nib)) back r0 rest,
  8 <= length key <= 24 -> length hdr = 4 -> length sched = 40 ->
  let res := m64_set_key {| ks_rounds := r0; ks_sched := sched |} (Some key) (N.of_nat (length key)) in
  fst res = 1%N /\
  w_set_key64 bool xorb false true (length key)
    ((bitsb hdr ++ concat (map (KernelSpecs2.half_bytes64 bool) sched) ++ back) :: bitsb key :: rest)
  = [ (rbytes (N.to_nat (ks_rounds nib (snd res))) ++ skipn 4 (bitsb hdr))
        ++ concat (map (KernelSpecs2.half_bytes64 bool) (ks_sched nib (snd res))) ++ back;
      bitsb key ].
Proof.
  intros key hdr sched back r0 rest Hk Hh Hs. cbv zeta.
  unfold m64_set_key, set_key.
  assert (Hok : size_ok 8 (3 * 8) (N.of_nat (length key)) = true).
  { unfold size_ok. apply andb_true_iff. split; apply N.leb_le; lia. }
  rewrite Hok. cbn [fst snd]. split; [reflexivity|].
  rewrite Nat2N.id, (pad_to_id (length key) key eq_refl).
  unfold w_set_key64, w_set_key. unfold reg. cbn [nth].
  rewrite firstn_all2 by (apply Nat.eq_le_incl, map_length).
  f_equal. exact (key_sched64_model key hdr sched back r0 Hk Hh Hs).
Qed.
Print Assumptions w_set_key64_model.

