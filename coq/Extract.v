(* Extract.v — extraction of the executable model.  Only ExtrOcamlBasic is
   used: bool, option, unit, list, prod and sumbool map to OCaml's; N,
   positive and nat stay as extracted inductives.  No Extract Constant. *)
Require Extraction.
Require Import ExtrOcamlBasic.
From Coq Require Import List NArith.
From Skinny Require Import Bits SpecSkinny SpecMantis ModelCipher ModelCtr ModelCpu Api ModelArduino ArdApi ModelTools.
Extraction "model.ml" step init_world astep byte_of_N N_of_byte
  skinny128_enc skinny128_dec skinny64_enc skinny64_dec
  skinny128_tweaked_enc skinny128_tweaked_dec skinny64_tweaked_enc skinny64_tweaked_dec
  mantis_enc mantis_dec
  tool_ctr128 tool_ctr64 tool_ecb128 tool_ecb64 tool_tweak128 tool_tweak64.
