#!/usr/bin/env python3
"""c2sir.py — translates WHOLE C functions of the current source into the structured two-sorted IR of coq/SIR.v, from
clang's typed JSON AST, for one build configuration.

Sorts.  Every C scalar is classified as PUBLIC (a concrete number: sizes, indices, loop counters, round counts, flags,
null-ness and byte offsets of pointers) or DATA (a bit vector: everything loaded from memory that is not a declared
public struct field, and everything computed from it).  A scalar local is public iff every assignment to it can be
translated as a public expression (optimistic start, demotion to data on the first failure, re-translation until stable).
Branch conditions, loop conditions, array indices, pointer arithmetic, memcpy/memset sizes and the operands of
+ - * / % and comparisons must be public: SIR.v has no syntax for anything else, so a secret-dependent branch or address
in the C source makes this translator fail with the source line ("secret-dependent ..."), which the checks report.

Pointers are (region, public byte offset).  Each pointer parameter is its own region; `alias` lets a harness bind two
parameters to one region (in-place calls).  Early returns become a public `done` flag.

Anything outside the supported subset is a hard error naming the construct and the source line.
"""
import json, os, re, sys
sys.path.insert(0, os.path.dirname(os.path.abspath(__file__)))
from c2ir import TU, WIDTHS, Unsupported, vec_of, loc_of, ctype, strip_q, ctype_of_typedef

class Secret(Exception):
    """raised when an expression that must be public involves data"""
    pass
class Demote(Exception):
    """a variable optimistically treated as public has to be data: restart"""
    pass

def unparen(n):
    while n.get("kind") in ("ParenExpr", "ConstantExpr"): n = n["inner"][0]
    return n
def strip_casts(n):
    while n.get("kind") in ("ParenExpr", "ImplicitCastExpr", "ConstantExpr") or (n.get("kind") == "CStyleCastExpr" and n.get("castKind") in ("BitCast", "NoOp", "LValueToRValue")):
        n = n["inner"][0]
    return n

def conv_d(e, w, s, w2):
    """convert data expression of width w (signedness s of the SOURCE type) to width w2"""
    if w == w2: return e
    if w2 < w or not s: return "DZext %d (%s)" % (w2, e)
    return "DSext %d (%s)" % (w2, e)
def conv_p(e, w, s, w2):
    if w == w2: return e
    if w2 < w: return "PTrunc %d (%s)" % (w2, e)
    if not s: return e
    return "PSext %d %d (%s)" % (w, w2, e)

def static_truth(c):
    m = re.match(r"^PConst (\d+)$", c)
    if m: return int(m.group(1)) != 0
    m = re.match(r"^PNot \((.*)\)$", c)
    if m and m.group(1).count("(") == m.group(1).count(")"):
        v = static_truth(m.group(1))
        return None if v is None else (not v)
    return None

OPAQUE = {"skinny128_sbox": 0, "skinny128_inv_sbox": 1, "skinny64_sbox": 2, "skinny64_inv_sbox": 3, "mantis_sbox": 4}

class SGen:
    def __init__(self, tu, pubfields, datavars, opaque=OPAQUE):
        self.tu = tu; self.opaque = opaque
        self.pubfield_names = pubfields            # set of (struct typedef name, field name)
        self.datavars = datavars                   # ids of VarDecl/ParmVarDecl forced to data
        self.regions = []                          # (name, size)
        self.fields = []                           # (r, off, n, label)
        self.npub = 0; self.ndata = 0; self.dwidths = []; self.pubnames = []
        self.scopes = [{}]
        self.out = [[]]                            # stack of statement lists being built
        self.ret_stack = []                        # per inlined function: dict(var=..., done=..., sort=...)
        self.gregions = {}; self.ginit = []
        self.ptrfields = {}; self.pf_bound = {}; self.extra_inputs = []
        self.brk_stack = []; self.body_stack = []; self.indirect = {}
        self.depth = 0

    # ---------- infrastructure
    def emit(self, s): self.out[-1].append(s)
    def new_pub(self, name="t"):
        i = self.npub; self.npub += 1; self.pubnames.append(name); return i
    def new_data(self, w):
        i = self.ndata; self.ndata += 1; self.dwidths.append(w); return i
    def region(self, name, size):
        self.regions.append((name, size)); return len(self.regions) - 1
    def lookup(self, name):
        for s in reversed(self.scopes):
            if name in s: return s[name]
        if name in self.tu.globals: return self.global_region(name)
        raise Unsupported("unknown identifier '%s'" % name)
    def global_region(self, name):
        """a const global array: its own region, filled with its constants before the function body"""
        if name in self.gregions: return self.gregions[name]
        d = self.tu.globals[name]
        t = strip_q(ctype(d)); tq = d["type"]["qualType"]
        if "const" not in tq: raise Unsupported("global '%s' is not const (mutable global state)" % name)
        m = re.match(r"(.*?)\s*((?:\[\d+\])+)$", t)
        if not m: raise Unsupported("global '%s' of type '%s'" % (name, t))
        et = m.group(1).strip(); dims = [int(x) for x in re.findall(r"\[(\d+)\]", m.group(2))]
        if et not in WIDTHS: raise Unsupported("global '%s' of element type '%s'" % (name, et))
        ew = WIDTHS[et][0]; total = ew // 8
        for x in dims: total *= x
        r = self.region(name, total)
        init = [c for c in d.get("inner", []) if c.get("kind") == "InitListExpr"]
        if not init: raise Unsupported("global '%s' has no initialiser" % name)
        leaves = []
        def walk(n):
            if n.get("kind") == "InitListExpr":
                for c in n.get("inner", []): walk(c)
            else: leaves.append(self.const(n) & ((1 << ew) - 1))
        walk(init[0])
        n_el = total // (ew // 8)
        leaves += [0] * (n_el - len(leaves))
        for i, v in enumerate(leaves[:n_el]):
            self.ginit.append("SDStore %d (PConst %d) %d (DConst %d %d)" % (r, i * (ew // 8), ew // 8, ew, v))
        self.gregions[name] = ("obj", r, "PConst 0", t)
        return self.gregions[name]
    def bind(self, name, v): self.scopes[-1][name] = v
    def bad(self, n, what=None):
        raise Unsupported("%s at %s" % (what or n.get("kind"), loc_of(n)))

    def scalar_type(self, n):
        t = strip_q(ctype(n))
        if t in WIDTHS: return WIDTHS[t]
        t2 = strip_q(n["type"]["qualType"])
        if t2 in WIDTHS: return WIDTHS[t2]
        if t == "size_t": return (64, False)
        return None
    def is_ptr_type(self, n):
        t = strip_q(ctype(n)); return t.endswith("*") or bool(re.search(r"\[\d*\]$", t))
    def pointee(self, t):
        t = strip_q(t)
        m = re.match(r"(.*?)\s*\[(\d*)\]$", t)
        if m: return m.group(1).strip()
        if t.endswith("*"): return t[:-1].strip()
        raise Unsupported("pointee of '%s'" % t)
    def sizeof(self, t):
        t = strip_q(t)
        if t in ("void", ""): return 1
        if t == "size_t": return 8
        return self.tu.type_size(t)[0]

    def declare_field(self, r, off, n, label):
        for f in self.fields:
            if f[:3] == (r, off, n): return
        self.fields.append((r, off, n, label))

    # ---------- compile-time constants
    def const(self, n):
        n = unparen(n); k = n.get("kind")
        if k == "IntegerLiteral": return int(n["value"])
        if k in ("ImplicitCastExpr", "CStyleCastExpr") and n.get("castKind") in ("IntegralCast", "NoOp", "LValueToRValue"):
            v = self.const(n["inner"][0]); st = self.scalar_type(n)
            if st is None: raise Unsupported("constant cast")
            w, s = st; v &= (1 << w) - 1
            return v - (1 << w) if (s and v >> (w - 1)) else v
        if k == "UnaryExprOrTypeTraitExpr" and n.get("name") == "sizeof":
            if "argType" in n: return self.sizeof(n["argType"].get("desugaredQualType") or n["argType"]["qualType"])
            return self.sizeof(ctype(unparen(n["inner"][0])))
        if k == "DeclRefExpr":
            v = self.lookup(n["referencedDecl"]["name"])
            if v[0] == "const": return v[1]
            raise Unsupported("not constant")
        if k == "BinaryOperator":
            a, b = self.const(n["inner"][0]), self.const(n["inner"][1]); o = n["opcode"]
            f = {"+": lambda: a + b, "-": lambda: a - b, "*": lambda: a * b, "<<": lambda: a << b, ">>": lambda: a >> b,
                 "&": lambda: a & b, "|": lambda: a | b, "^": lambda: a ^ b, "/": lambda: a // b, "%": lambda: a % b}.get(o)
            if f is None: raise Unsupported("constant operator")
            v = f(); st = self.scalar_type(n)
            if st:
                w, s = st; v &= (1 << w) - 1
                if s and v >> (w - 1): v -= 1 << w
            return v
        if k == "UnaryOperator" and n["opcode"] == "-": return -self.const(n["inner"][0])
        if k == "UnaryOperator" and n["opcode"] == "~":
            st = self.scalar_type(n); v = ~self.const(n["inner"][0])
            return v & ((1 << st[0]) - 1) if st else v
        raise Unsupported("not constant")
    def try_const(self, n):
        try: return self.const(n)
        except (Unsupported, KeyError): return None

    # ---------- pointers: (region, offset pexpr, pointee type, null pexpr)
    def ptr(self, n):
        n0 = n; n = unparen(n); k = n.get("kind")
        if k == "ImplicitCastExpr" or k == "CStyleCastExpr":
            ck = n.get("castKind")
            if ck == "NullToPointer": return (None, "PConst 0", "void", "PConst 1")
            if ck in ("LValueToRValue", "NoOp"): return self.ptr(n["inner"][0])
            if ck == "BitCast":
                r, off, pt, nl = self.ptr(n["inner"][0]); return (r, off, self.pointee(ctype(n)), nl)
            if ck == "ArrayToPointerDecay":
                lv = self.lvalue(n["inner"][0])
                if lv[0] != "obj": self.bad(n, "array decay of a non-object")
                return (lv[1], lv[2], self.pointee(lv[3]), "PConst 0")
            if ck == "IntegralToPointer" and self.try_const(n["inner"][0]) == 0: return (None, "PConst 0", "void", "PConst 1")
            self.bad(n, "pointer cast %s" % ck)
        if k == "DeclRefExpr":
            v = self.lookup(n["referencedDecl"]["name"])
            if v[0] == "ptr": return (v[1], v[2], v[3], v[4])
            if v[0] == "obj": return (v[1], v[2], self.pointee(v[3]), "PConst 0")      # array object used as pointer
            self.bad(n, "'%s' is not a pointer" % n["referencedDecl"]["name"])
        if k == "UnaryOperator" and n["opcode"] == "&":
            lv = self.lvalue(n["inner"][0])
            if lv[0] == "obj": return (lv[1], lv[2], lv[3], "PConst 0")
            if lv[0] == "mem": return (lv[1], lv[2], lv[5], "PConst 0")
            self.bad(n, "address of a register variable")
        if k == "BinaryOperator" and n["opcode"] in ("+", "-"):
            a, b = n["inner"]
            if not self.is_ptr_type(a): a, b = b, a
            r, off, pt, nl = self.ptr(a)
            i, w, s = self.pub(b)
            es = self.sizeof(pt)
            i = conv_p(i, w, s, 64)
            step = i if es == 1 else "PBin PMul 64 (%s) (PConst %d)" % (i, es)
            return (r, "PBin %s 64 (%s) (%s)" % ("PAdd" if n["opcode"] == "+" else "PSub", off, step), pt, nl)
        if k == "ConditionalOperator":
            self.bad(n, "conditional pointer")
        if k == "UnaryOperator" and n.get("opcode") in ("++", "--"):
            lv = self.lvalue(n["inner"][0])
            if lv[0] != "ptr" or lv[5] is None: self.bad(n, "increment of a pointer bound to a fixed place")
            step = "PBin %s 64 (PVar %d) (PConst %d)" % ("PAdd" if n["opcode"] == "++" else "PSub", lv[5], self.sizeof(lv[3]))
            if n.get("isPostfix"):
                t = self.new_pub("old"); self.emit("SPub %d (PVar %d)" % (t, lv[5])); self.emit("SPub %d (%s)" % (lv[5], step))
                return (lv[1], "PVar %d" % t, lv[3], lv[4])
            self.emit("SPub %d (%s)" % (lv[5], step))
            return (lv[1], "PVar %d" % lv[5], lv[3], lv[4])
        if k == "MemberExpr":
            lv = self.lvalue(n)
            if lv[0] == "ptrval": return (lv[1], lv[2], lv[3], lv[4])
        self.bad(n0, "pointer expression of kind %s" % k)

    # ---------- lvalues: ('pub', idx, w, s) | ('data', idx, w, s) | ('mem', r, off pexpr, nbytes, signed, typename, public?) | ('obj', r, off, typename)
    def lvalue(self, n):
        n = unparen(n); k = n.get("kind")
        if k == "DeclRefExpr":
            v = self.lookup(n["referencedDecl"]["name"])
            if v[0] in ("pub", "data", "obj", "ptr"): return v
            self.bad(n, "lvalue '%s'" % n["referencedDecl"]["name"])
        if k == "MemberExpr":
            if n.get("isArrow"):
                r, off, pt, nl = self.ptr(n["inner"][0]); bt = strip_q(pt)
            else:
                b = self.lvalue(n["inner"][0])
                if b[0] != "obj": self.bad(n, "member of a non-object")
                r, off, bt = b[1], b[2], strip_q(b[3])
            if r is None: self.bad(n, "member access through a null pointer")
            lay = self.tu.layouts.get(bt)
            if lay is None: self.bad(n, "layout of '%s'" % bt)
            foff, ft = lay["fields"][n["name"]]
            o2 = off if foff == 0 else self.padd(off, foff)
            return self.typed_place(r, o2, ft, (bt, n["name"]) in self.pubfield_names, "%s.%s" % (bt, n["name"]))
        if k == "ArraySubscriptExpr":
            base, idx = n["inner"]
            if not self.is_ptr_type(base): base, idx = idx, base
            if self.vtype(base): self.bad(n, "vector lane as an lvalue")
            r, off, pt, nl = self.ptr(base)
            if r is None: self.bad(n, "subscript of a null pointer")
            i, w, s = self.pub(idx)
            es = self.sizeof(pt)
            c = self.try_const(idx)
            if c is not None:
                o2 = off if c == 0 else self.padd(off, c * es)
            else:
                i = conv_p(i, w, s, 64)
                o2 = "PBin PAdd 64 (%s) (%s)" % (off, i if es == 1 else "PBin PMul 64 (%s) (PConst %d)" % (i, es))
            return self.typed_place(r, o2, pt, False, None)
        if k == "UnaryOperator" and n["opcode"] == "*":
            t_ = strip_casts(n["inner"][0])
            if t_.get("kind") == "DeclRefExpr":
                v_ = self.lookup(t_["referencedDecl"]["name"])
                if v_[0] == "localptr": return v_[1]
            r, off, pt, nl = self.ptr(n["inner"][0])
            if r is None: self.bad(n, "dereference of a null pointer")
            return self.typed_place(r, off, pt, False, None)
        if k in ("ImplicitCastExpr",) and n.get("castKind") in ("NoOp", "LValueToRValue"):
            return self.lvalue(n["inner"][0])
        self.bad(n, "lvalue of kind %s" % k)
    def padd(self, off, c):
        m = re.match(r"^PConst (\d+)$", off)
        if m: return "PConst %d" % (int(m.group(1)) + c)
        m = re.match(r"^PBin PAdd 64 \((.*)\) \(PConst (\d+)\)$", off)
        if m and m.group(1).count("(") == m.group(1).count(")"): return "PBin PAdd 64 (%s) (PConst %d)" % (m.group(1), int(m.group(2)) + c)
        return "PBin PAdd 64 (%s) (PConst %d)" % (off, c)
    def typed_place(self, r, off, t, public, label):
        t = strip_q(t)
        tt = t
        if tt not in WIDTHS and tt in self.tu.typedefs:
            d = strip_q(ctype_of_typedef(self.tu, tt))
            if d in WIDTHS: tt = d
        if tt in WIDTHS:
            w, s = WIDTHS[tt]
            if public:
                m = re.match(r"^PConst (\d+)$", off)
                if not m: raise Unsupported("public field %s at a non-literal offset" % label)
                self.declare_field(r, int(m.group(1)), w // 8, label)
            return ("mem", r, off, w // 8, s, t, public)
        v = vec_of(t) or (vec_of(strip_q(ctype_of_typedef(self.tu, t))) if t in self.tu.typedefs else None)
        if v: return ("mem", r, off, v[0] * v[1] // 8, v[2], t, False)
        if t.endswith("*"):
            if label and label in self.ptrfields: return self.ptrfield(label)
            raise Unsupported("pointer stored in memory (%s)" % (label or t))
        return ("obj", r, off, t)
    def ptrfield(self, label):
        """a pointer field of a caller-owned object that points to a separate (library-allocated) object: its own region"""
        if label not in self.pf_bound:
            rname, pointee = self.ptrfields[label]
            r = self.region(rname, self.sizeof(pointee))
            z = self.new_pub(rname + "_null"); self.extra_inputs.append({"name": rname + "_null", "var": z})
            self.pf_bound[label] = ("ptrval", r, "PConst 0", pointee, "PVar %d" % z)
        return self.pf_bound[label]
    def vtype(self, n):
        t = strip_q(ctype(n))
        return vec_of(t)

    # ---------- public expressions: (pexpr, width, signed)
    def pub(self, n):
        n = unparen(n); k = n.get("kind")
        if self.vtype(n): raise Secret("vector value at %s" % loc_of(n))
        c = None
        if k in ("IntegerLiteral", "UnaryExprOrTypeTraitExpr", "CharacterLiteral"):
            st = self.scalar_type(n) or (64, False)
            v = int(n["value"]) if k != "UnaryExprOrTypeTraitExpr" else self.const(n)
            return ("PConst %d" % (v & ((1 << st[0]) - 1)), st[0], st[1])
        if k == "DeclRefExpr":
            v = self.lookup(n["referencedDecl"]["name"])
            if v[0] == "pub": return ("PVar %d" % v[1], v[2], v[3])
            if v[0] == "const": return ("PConst %d" % (v[1] & ((1 << v[2]) - 1)), v[2], v[3])
            if v[0] == "data": raise Secret("'%s' (data) at %s" % (n["referencedDecl"]["name"], loc_of(n)))
            if v[0] == "ptr":                      # pointer in a boolean context handled by the caller
                self.bad(n, "pointer '%s' used as a number" % n["referencedDecl"]["name"])
            self.bad(n, "'%s' as a public value" % n["referencedDecl"]["name"])
        if k in ("MemberExpr", "ArraySubscriptExpr") or (k == "UnaryOperator" and n.get("opcode") == "*"):
            if k == "ArraySubscriptExpr" and self.vtype(n["inner"][0]): raise Secret("vector lane at %s" % loc_of(n))
            lv = self.lvalue(n)
            if lv[0] == "pub": return ("PVar %d" % lv[1], lv[2], lv[3])
            if lv[0] == "data": raise Secret("data through a pointer at %s" % loc_of(n))
            if lv[0] == "mem" and lv[6]:
                m = re.match(r"^PConst (\d+)$", lv[2])
                return ("PField %d %d %d" % (lv[1], int(m.group(1)), lv[3]), lv[3] * 8, lv[4])
            if lv[0] == "mem": raise Secret("load from memory at %s" % loc_of(n))
            self.bad(n, "aggregate as a public value")
        if k in ("ImplicitCastExpr", "CStyleCastExpr"):
            ck = n.get("castKind")
            if ck in ("LValueToRValue", "NoOp"): return self.pub(n["inner"][0])
            if ck == "IntegralCast":
                e, w, s = self.pub(n["inner"][0]); w2, s2 = self.scalar_type(n)
                return (conv_p(e, w, s, w2), w2, s2)
            if ck == "PointerToBoolean" or ck == "IntegralToBoolean":
                return self.truth(n["inner"][0])
            self.bad(n, "cast kind %s in a public expression" % ck)
        if k == "UnaryOperator":
            o = n["opcode"]
            if o == "!":
                e, w, s = self.truth(n["inner"][0]); return ("PNot (%s)" % e, 32, True)
            if o == "-":
                e, w, s = self.pub(n["inner"][0]); return ("PBin PSub %d (PConst 0) (%s)" % (w, e), w, s)
            if o == "~":
                e, w, s = self.pub(n["inner"][0]); return ("PBin PXor %d (%s) (PConst %d)" % (w, e, (1 << w) - 1), w, s)
            if o == "+": return self.pub(n["inner"][0])
            self.bad(n, "unary operator %s in a public expression" % o)
        if k == "BinaryOperator":
            o = n["opcode"]
            if o in ("&&", "||"):
                a, _, _ = self.truth(n["inner"][0]); b, _, _ = self.truth(n["inner"][1])
                return ("PBin %s 32 (%s) (%s)" % ("PLAnd" if o == "&&" else "PLOr", a, b), 32, True)
            if o in ("==", "!=", "<", "<=", ">", ">="):
                if self.is_ptr_type(n["inner"][0]) or self.is_ptr_type(n["inner"][1]):
                    if o in ("==", "!="):
                        pa = self.ptr(n["inner"][0]); pb = self.ptr(n["inner"][1])
                        if pb[0] is None: e = pa[3]
                        elif pa[0] is None: e = pb[3]
                        elif pa[0] == pb[0]: e = "PBin PEq 64 (%s) (%s)" % (pa[1], pb[1])
                        else: e = "PConst 0"          # distinct regions are distinct objects
                        return (e if o == "==" else "PNot (%s)" % e, 32, True)
                    self.bad(n, "pointer comparison")
                a, wa, sa = self.pub(n["inner"][0]); b, wb, sb = self.pub(n["inner"][1])
                if wa != wb: self.bad(n, "comparison of widths %d/%d" % (wa, wb))
                sg = sa and sb
                if o in (">", ">="): a, b = b, a
                op = {"==": "PEq", "!=": "PNe", "<": "PSLt" if sg else "PLt", "<=": "PSLe" if sg else "PLe",
                      ">": "PSLt" if sg else "PLt", ">=": "PSLe" if sg else "PLe"}[o]
                return ("PBin %s %d (%s) (%s)" % (op, wa, a, b), 32, True)
            if o in ("+", "-", "*", "/", "%", "&", "|", "^", "<<", ">>"):
                a, wa, sa = self.pub(n["inner"][0]); b, wb, sb = self.pub(n["inner"][1])
                w, s = self.scalar_type(n)
                if o in ("<<", ">>"):
                    return ("PBin %s %d (%s) (%s)" % ("PShl" if o == "<<" else ("PSar" if sa else "PShr"), wa, a, b), wa, sa)
                if wa != wb or wa != w: self.bad(n, "operand widths %d/%d/%d of %s" % (wa, wb, w, o))
                if o in ("/", "%"):
                    if s: self.bad(n, "signed division")
                    c = self.try_const(n["inner"][1])
                    if not c: self.bad(n, "division by a non-constant")
                op = {"+": "PAdd", "-": "PSub", "*": "PMul", "/": "PDiv", "%": "PMod", "&": "PAnd", "|": "POr", "^": "PXor"}[o]
                return ("PBin %s %d (%s) (%s)" % (op, w, a, b), w, s)
            if o == ",":
                self.stmt(n["inner"][0]); return self.pub(n["inner"][1])
            self.bad(n, "binary operator %s in a public expression" % o)
        if k == "ConditionalOperator":
            c, _, _ = self.truth(n["inner"][0]); a, wa, sa = self.pub(n["inner"][1]); b, wb, sb = self.pub(n["inner"][2])
            return ("PCond (%s) (%s) (%s)" % (c, a, b), wa, sa)
        if k == "CallExpr":
            r = self.call(n, want="pub")
            if r is None: self.bad(n, "void call used as a value")
            if r[0] == "data": raise Secret("result of a call at %s" % loc_of(n))
            return r[1:]
        self.bad(n, "public expression of kind %s" % k)
    def truth(self, n):
        """C truth value of a scalar or pointer expression, as a public 0/1"""
        n1 = unparen(n)
        if self.is_ptr_type(n1):
            p = self.ptr(n1); return ("PNot (%s)" % p[3], 32, True)
        e, w, s = self.pub(n1)
        return (e, w, s)

    # ---------- data expressions: (dexpr, width, signed)
    def data(self, n):
        n = unparen(n); k = n.get("kind")
        # anything that is public is usable as data
        try:
            save = (len(self.out[-1]),)
            e, w, s = self.pub(n)
            return ("DPub %d (%s)" % (w, e), w, s)
        except Secret:
            del self.out[-1][save[0]:]
        if k == "DeclRefExpr":
            v = self.lookup(n["referencedDecl"]["name"])
            if v[0] == "data": return ("DLocal %d" % v[1], v[2], v[3])
            self.bad(n, "'%s' as data" % n["referencedDecl"]["name"])
        if k == "ArraySubscriptExpr" and self.vtype(n["inner"][0]):
            ew, ln, sg = self.vtype(n["inner"][0]); idx = self.const(n["inner"][1])
            e, w, s = self.data(n["inner"][0])
            return ("DSlice (%s) %d %d" % (e, idx * ew, ew), ew, sg)
        if k in ("MemberExpr", "ArraySubscriptExpr") or (k == "UnaryOperator" and n.get("opcode") == "*"):
            lv = self.lvalue(n)
            if lv[0] == "data": return ("DLocal %d" % lv[1], lv[2], lv[3])
            if lv[0] != "mem": self.bad(n, "load of an aggregate")
            return ("DLoad %d (%s) %d" % (lv[1], lv[2], lv[3]), lv[3] * 8, lv[4])
        if k == "CompoundLiteralExpr": return self.data(n["inner"][0])
        if k == "InitListExpr" and self.vtype(n):
            ew, ln, sg = self.vtype(n); parts = []
            for c in n["inner"]:
                e, w, s = self.data(c); parts.append(conv_d(e, w, s, ew))
            if len(parts) != ln: self.bad(n, "vector initialiser with %d of %d lanes" % (len(parts), ln))
            return ("DConcat [%s]" % "; ".join(parts), ew * ln, sg)
        if k in ("ImplicitCastExpr", "CStyleCastExpr"):
            ck = n.get("castKind")
            if ck in ("LValueToRValue", "NoOp"): return self.data(n["inner"][0])
            if ck == "VectorSplat":
                ew, ln, sg = self.vtype(n); e, w, s = self.data(n["inner"][0]); e = conv_d(e, w, s, ew)
                return ("DConcat [%s]" % "; ".join([e] * ln), ew * ln, sg)
            if ck == "BitCast" and self.vtype(n):
                e, w, s = self.data(n["inner"][0]); return (e, w, self.vtype(n)[2])
            if ck == "IntegralCast":
                e, w, s = self.data(n["inner"][0]); w2, s2 = self.scalar_type(n)
                return (conv_d(e, w, s, w2), w2, s2)
            self.bad(n, "cast kind %s in a data expression" % ck)
        if k == "UnaryOperator":
            if n["opcode"] == "~":
                e, w, s = self.data(n["inner"][0]); return ("DNot (%s)" % e, w, s)
            self.bad(n, "unary operator %s on data" % n["opcode"])
        if k == "BinaryOperator":
            o = n["opcode"]
            if o in ("&", "|", "^"):
                a, wa, sa = self.data(n["inner"][0]); b, wb, sb = self.data(n["inner"][1])
                if wa != wb: self.bad(n, "operand widths %d/%d of %s" % (wa, wb, o))
                st = self.scalar_type(n); sg = st[1] if st else sa
                return ("DBin %s (%s) (%s)" % ({"&": "BAnd", "|": "BOr", "^": "BXor"}[o], a, b), wa, sg)
            if o in ("<<", ">>"):
                cnt_ = unparen(n["inner"][1])
                while cnt_.get("kind") in ("ImplicitCastExpr", "CStyleCastExpr") and cnt_.get("castKind") == "VectorSplat":
                    cnt_ = unparen(cnt_["inner"][0])             # x << (vector)count: the count is the scalar
                a, wa, sa = self.data(n["inner"][0]); kk = self.try_const(cnt_)
                if kk is None:
                    raise Unsupported("secret-dependent or non-constant shift count at %s" % loc_of(n))
                v = self.vtype(n["inner"][0]); lw = v[0] if v else wa
                if not (0 <= kk < lw): self.bad(n, "shift count %d" % kk)
                if o == "<<": return ("DShl %d (%s) %d" % (lw, a, kk), wa, sa)
                return ("%s %d (%s) %d" % ("DShrA" if sa else "DShrL", lw, a, kk), wa, sa)
            if o == "+":
                a, wa, sa = self.data(n["inner"][0]); b, wb, sb = self.data(n["inner"][1])
                if wa != wb: self.bad(n, "operand widths %d/%d of +" % (wa, wb))
                st = self.scalar_type(n); sg = st[1] if st else sa
                return ("DAdd (%s) (%s)" % (a, b), wa, sg)
            if o == ",":
                self.stmt(n["inner"][0]); return self.data(n["inner"][1])
            raise Unsupported("secret-dependent arithmetic: operator %s on data at %s (only & | ^ ~ << >> are data operators)" % (o, loc_of(n)))
        if k == "ConditionalOperator":
            raise Unsupported("secret-dependent selection (?:) at %s" % loc_of(n))
        if k == "CallExpr":
            r = self.call(n, want="data")
            if r is None: self.bad(n, "void call used as a value")
            if r[0] == "pub": return ("DPub %d (%s)" % (r[2], r[1]), r[2], r[3])
            return r[1:]
        self.bad(n, "data expression of kind %s" % k)

    # ---------- calls
    def call(self, n, want=None):
        callee = strip_casts(n["inner"][0])
        name = callee.get("referencedDecl", {}).get("name")
        args = n["inner"][1:]
        if name is None:
            # indirect call through a vtable field: dispatch, resolved by the harness per back end
            fld = None
            def find_member(x):
                nonlocal fld
                if isinstance(x, dict):
                    if x.get("kind") == "MemberExpr" and fld is None: fld = x.get("name")
                    for c_ in x.get("inner", []) or []: find_member(c_)
            find_member(n["inner"][0])
            if fld is not None and fld in self.indirect:
                target = self.indirect[fld]
                if target is None:
                    self.emit("SPub 0 (PVar 4000000)")          # unreachable at this public configuration: makes [flat] fail if reached
                    return None
                if target in getattr(self, "procs", {}):
                    return self.proc_call(target, args, n)
                for t_ in [self.tu] + list(getattr(self.tu, "others", [])):
                    if target in t_.funcs:
                        if not hasattr(t_, "others"): t_.others = []
                        return self.inline(t_.funcs[target], args, n, body_tu=(t_ if t_ is not self.tu else None))
                raise Unsupported("indirect call target %s not found" % target)
            raise Unsupported("indirect call at %s (function pointers are dispatch, translated per back end)" % loc_of(n))
        if name == "memcpy" or name == "__builtin_memcpy" or name == "memmove":
            d = self.ptr(args[0]); s = self.ptr(args[1]); k, w, sg = self.pubsize(args[2])
            if d[0] is None or s[0] is None: self.bad(n, "memcpy with a null pointer")
            self.emit("SCopy %d (%s) %d (%s) (%s)" % (d[0], d[1], s[0], s[1], k)); return None
        if name in ("memset", "__builtin_memset"):
            d = self.ptr(args[0]); v = self.try_const(args[1]); k, w, sg = self.pubsize(args[2])
            if v is None: self.bad(n, "memset with a non-constant byte")
            if d[0] is None: self.bad(n, "memset with a null pointer")
            self.emit("SFill %d (%s) (%s) %d" % (d[0], d[1], k, v & 255)); return None
        if name in getattr(self, "procs", {}):
            return self.proc_call(name, args, n)
        if name in self.opaque:
            e, w, s = self.data(args[0])
            return ("data", "DCall %d (%s)" % (self.opaque[name], e), w, s)
        f = self.tu.funcs.get(name)
        if f is None:
            for other in getattr(self.tu, "others", []):
                if name in other.funcs:
                    if not hasattr(other, "others"): other.others = []
                    return self.inline(other.funcs[name], args, n, body_tu=other)
            raise Unsupported("call to external function %s at %s" % (name, loc_of(n)))
        return self.inline(f, args, n)
    def proc_call(self, name, args, n):
        # a callee kept as a PROCEDURE CALL (coq/WholeProc.v): f(out, in, ks) with an output and an input of bs bytes and the
        # whole key-schedule object as its second data argument; its meaning is supplied by the call interpretation
        spec = self.procs[name]
        fno, bs, kn = spec[:3]
        if len(spec) > 3 and spec[3]:
            # f(out, in, tweak, ks): a second data argument of the same size as the input
            o = self.ptr(args[0]); i = self.ptr(args[1]); tw = self.ptr(args[2]); kk = self.ptr(args[3])
            if o[0] is None or i[0] is None or tw[0] is None or kk[0] is None: self.bad(n, "procedure call with a null pointer")
            self.emit("SDStore %d (%s) %d (DCall %d (DConcat [DLoad %d (%s) %d; DLoad %d (%s) %d; DLoad %d (%s) %d]))"
                      % (o[0], o[1], bs, fno, i[0], i[1], bs, tw[0], tw[1], bs, kk[0], kk[1], kn))
            return None
        o = self.ptr(args[0]); i = self.ptr(args[1]); kk = self.ptr(args[2])
        if o[0] is None or i[0] is None or kk[0] is None: self.bad(n, "procedure call with a null pointer")
        self.emit("SDStore %d (%s) %d (DCall %d (DConcat [DLoad %d (%s) %d; DLoad %d (%s) %d]))"
                  % (o[0], o[1], bs, fno, i[0], i[1], bs, kk[0], kk[1], kn))
        return None
    def pubsize(self, n):
        try: return self.pub(n)
        except Secret as e: raise Unsupported("secret-dependent size: %s" % e)

    def inline(self, f, args, site, body_tu=None):
        if self.depth > 12: self.bad(site, "inlining depth")
        params = [c for c in f["inner"] if c.get("kind") == "ParmVarDecl"]
        body = [c for c in f["inner"] if c.get("kind") == "CompoundStmt"][0]
        scope = {}
        for p, a in zip(params, args):
            if self.is_ptr_type(p):
                t_ = strip_casts(a)
                if t_.get("kind") == "UnaryOperator" and t_.get("opcode") == "&":
                    try: lv_ = self.lvalue(t_["inner"][0])
                    except Unsupported: lv_ = None
                    if lv_ and lv_[0] in ("data", "pub"):
                        scope[p["name"]] = ("localptr", lv_); continue
                r, off, pt, nl = self.ptr(a)
                if self.assigned_in(body, p["name"]) or not re.match(r"^PConst \d+$", off):
                    x = self.new_pub(p["name"]); self.emit("SPub %d (%s)" % (x, off)); off = "PVar %d" % x
                else: x = None
                if not re.match(r"^PConst \d+$", nl):
                    z = self.new_pub(p["name"] + "_null"); self.emit("SPub %d (%s)" % (z, nl)); nl = "PVar %d" % z
                scope[p["name"]] = ["ptr", r, off, self.pointee(ctype(p)), nl, x, None]
            else:
                st = self.scalar_type(p) or (vec_of(strip_q(ctype(p))) and (vec_of(strip_q(ctype(p)))[0] * vec_of(strip_q(ctype(p)))[1], vec_of(strip_q(ctype(p)))[2]))
                if not st: self.bad(p, "parameter type")
                w2, s2 = st
                c = self.try_const(a)
                forced = p["id"] in self.datavars
                if c is not None and not forced and not self.assigned_in(body, p["name"]):
                    scope[p["name"]] = ("const", c, w2, s2); continue
                done = False
                if not forced:
                    mark = len(self.out[-1])
                    try:
                        e, w, s = self.pub(a)
                        x = self.new_pub(p["name"]); self.emit("SPub %d (%s)" % (x, conv_p(e, w, s, w2))); scope[p["name"]] = ("pub", x, w2, s2, p["id"]); done = True
                    except Secret:
                        del self.out[-1][mark:]
                        self.datavars.add(p["id"]); raise Demote()
                if not done:
                    e, w, s = self.data(a)
                    x = self.new_data(w2); self.emit("SData %d (%s)" % (x, conv_d(e, w, s, w2))); scope[p["name"]] = ("data", x, w2, s2, p["id"])
        # return value plumbing
        rt = strip_q(f["type"]["qualType"].split("(")[0])
        rinfo = {"id": f["id"], "void": rt == "void", "tail_only": self.returns_only_at_tail(body)}
        if not rinfo["void"]:
            rtd = strip_q(ctype_of_typedef(self.tu, rt)) if rt in self.tu.typedefs else rt
            if body_tu is not None and rt in body_tu.typedefs: rtd = strip_q(ctype_of_typedef(body_tu, rt))
            vrt = vec_of(rt) or vec_of(rtd)
            st = WIDTHS.get(rt) or WIDTHS.get(rtd) or (vrt and (vrt[0] * vrt[1], vrt[2]))
            if not st: self.bad(site, "return type '%s'" % rt)
            rinfo["w"], rinfo["s"] = st
            if ("ret", f["id"]) in self.datavars or vrt:
                rinfo["sort"] = "data"; rinfo["var"] = self.new_data(st[0])
            else:
                rinfo["sort"] = "pub"; rinfo["var"] = self.new_pub("ret_" + f["name"])
        if not rinfo["tail_only"]:
            rinfo["done"] = self.new_pub("done_" + f["name"]); self.emit("SPub %d (PConst 0)" % rinfo["done"])
        self.ret_stack.append(rinfo)
        saved = self.scopes; self.scopes = [self.scopes[0], scope]; self.depth += 1
        saved_tu = self.tu; saved_brk = self.brk_stack; self.brk_stack = []
        if body_tu is not None: self.tu = body_tu
        self.body_stack.append(body)
        try:
            self.block(body)
        finally:
            self.scopes = saved; self.depth -= 1; self.ret_stack.pop(); self.tu = saved_tu; self.brk_stack = saved_brk; self.body_stack.pop()
        if rinfo["void"]: return None
        if rinfo["sort"] == "pub": return ("pub", "PVar %d" % rinfo["var"], rinfo["w"], rinfo["s"])
        return ("data", "DLocal %d" % rinfo["var"], rinfo["w"], rinfo["s"])

    def assigned_in(self, body, name):
        found = [False]
        def walk(n):
            if not isinstance(n, dict) or found[0]: return
            k = n.get("kind")
            if k in ("BinaryOperator", "CompoundAssignOperator") and (k == "CompoundAssignOperator" or n.get("opcode") == "="):
                t = strip_casts(n["inner"][0])
                if t.get("kind") == "DeclRefExpr" and t["referencedDecl"]["name"] == name: found[0] = True
            if k == "UnaryOperator" and n.get("opcode") in ("++", "--", "&"):
                t = strip_casts(n["inner"][0])
                if t.get("kind") == "DeclRefExpr" and t["referencedDecl"]["name"] == name: found[0] = True
            for c in n.get("inner", []) or []: walk(c)
        walk(body); return found[0]
    def returns_only_at_tail(self, body):
        inner = [c for c in body.get("inner", []) if c]
        def has_ret(n):
            if not isinstance(n, dict): return False
            if n.get("kind") == "ReturnStmt": return True
            return any(has_ret(c) for c in n.get("inner", []) or [])
        for c in inner[:-1]:
            if has_ret(c): return False
        if inner and inner[-1].get("kind") != "ReturnStmt" and has_ret(inner[-1]): return False
        return True

    # ---------- statements
    def guarded(self, thunk):
        """run thunk emitting into a fresh list; return the list"""
        self.out.append([])
        try: thunk()
        finally: lst = self.out.pop()
        return lst
    def fmt(self, lst): return "[" + "; ".join(lst) + "]"
    def done_expr(self):
        r = self.ret_stack[-1] if self.ret_stack else None
        return ("PVar %d" % r["done"]) if r and "done" in r else None
    def block(self, n):
        self.scopes.append({})
        try:
            self.seq([c for c in n.get("inner", []) if c])
        finally:
            self.scopes.pop()
    def seq(self, stmts):
        d = self.done_expr()
        for i, s in enumerate(stmts):
            may = d is not None and self.may_return(s)
            mayb = bool(self.brk_stack) and self.has_break(s)
            self.stmt(s)
            if (may or mayb) and i + 1 < len(stmts):
                rest = stmts[i + 1:]
                lst = self.guarded(lambda: self.seq(rest))
                g = []
                if may: g.append("PNot (%s)" % d)
                if mayb: g.append("PNot (PVar %d)" % self.brk_stack[-1])
                cond = g[0] if len(g) == 1 else "PBin PLAnd 32 (%s) (%s)" % (g[0], g[1])
                if lst: self.emit("SIf (%s) %s []" % (cond, self.fmt(lst)))
                return
    def may_return(self, n):
        if not isinstance(n, dict): return False
        if n.get("kind") == "ReturnStmt": return True
        return any(self.may_return(c) for c in n.get("inner", []) or [])

    def stmt(self, s):
        k = s.get("kind")
        if k == "CompoundStmt": return self.block(s)
        if k == "NullStmt": return
        if k == "DeclStmt":
            for d in s["inner"]:
                if d.get("kind") != "VarDecl": self.bad(d)
                self.decl(d)
            return
        if k == "ReturnStmt":
            r = self.ret_stack[-1]
            if s.get("inner"):
                if r["sort"] == "pub":
                    mark = len(self.out[-1])
                    try:
                        e, w, sg = self.pub(s["inner"][0]); self.emit("SPub %d (%s)" % (r["var"], conv_p(e, w, sg, r["w"])))
                    except Secret:
                        del self.out[-1][mark:]
                        self.datavars.add(("ret", r["id"])); raise Demote()
                else:
                    e, w, sg = self.data(s["inner"][0]); self.emit("SData %d (%s)" % (r["var"], conv_d(e, w, sg, r["w"])))
            if "done" in r: self.emit("SPub %d (PConst 1)" % r["done"])
            return
        if k == "IfStmt":
            inner = s["inner"]
            try: c, _, _ = self.truth(inner[0])
            except Secret as e: raise Unsupported("secret-dependent branch: %s" % e)
            sv = static_truth(c)
            if sv is not None:                      # statically decided (e.g. a NULL argument of an inlined call)
                if sv: self.stmt(inner[1])
                elif len(inner) > 2 and inner[2]: self.stmt(inner[2])
                return
            a = self.guarded(lambda: self.stmt(inner[1]))
            b = self.guarded(lambda: self.stmt(inner[2])) if len(inner) > 2 and inner[2] else []
            self.emit("SIf (%s) %s %s" % (c, self.fmt(a), self.fmt(b))); return
        if k == "ForStmt":
            init, _, cond, inc, body = s["inner"]
            self.scopes.append({})
            try:
                if init: self.stmt(init)
                self.loop(cond, body, inc, s)
            finally: self.scopes.pop()
            return
        if k == "WhileStmt":
            self.loop(s["inner"][0], s["inner"][1], None, s); return
        if k == "BreakStmt":
            if not self.brk_stack: self.bad(s, "break outside a loop")
            self.emit("SPub %d (PConst 1)" % self.brk_stack[-1]); return
        if k in ("ContinueStmt", "DoStmt", "SwitchStmt", "GotoStmt"):
            self.bad(s, "statement %s" % k)
        # expression statements
        self.effect(s)
    def loop(self, cond, body, inc, site):
        try:
            c = self.truth(cond)[0] if cond else "PConst 1"
        except Secret as e: raise Unsupported("secret-dependent loop condition: %s" % e)
        d = self.done_expr()
        if d is not None and self.may_return(body): c = "PBin PLAnd 32 (PNot (%s)) (%s)" % (d, c)
        has_brk = self.has_break(body)
        if has_brk:
            bv = self.new_pub("brk"); self.emit("SPub %d (PConst 0)" % bv); self.brk_stack.append(bv)
            c = "PBin PLAnd 32 (PNot (PVar %d)) (%s)" % (bv, c)
        def b():
            self.stmt(body)
            if inc:
                if has_brk:
                    lst2 = self.guarded(lambda: self.effect(inc))
                    self.emit("SIf (PNot (PVar %d)) %s []" % (bv, self.fmt(lst2)))
                else: self.effect(inc)
        try:
            lst = self.guarded(b)
        finally:
            if has_brk: self.brk_stack.pop()
        self.emit("SWhile (%s) %s" % (c, self.fmt(lst)))
    def has_break(self, n):
        """a break that belongs to this loop (not to a nested one)"""
        if not isinstance(n, dict): return False
        if n.get("kind") == "BreakStmt": return True
        if n.get("kind") in ("ForStmt", "WhileStmt", "DoStmt"): return False
        return any(self.has_break(c) for c in n.get("inner", []) or [])

    def decl(self, d):
        t = strip_q(ctype(d)); tq = strip_q(d["type"]["qualType"])
        init = d["inner"][-1] if d.get("inner") else None
        if init is not None and init.get("kind") in ("FullComment", "ParagraphComment"): init = None
        st = WIDTHS.get(t) or (t == "size_t" and (64, False))
        if st:
            w, sg = st
            if d["id"] in self.datavars:
                x = self.new_data(w); self.bind(d["name"], ("data", x, w, sg, d["id"]))
                if init is not None:
                    e, w2, s2 = self.data(init); self.emit("SData %d (%s)" % (x, conv_d(e, w2, s2, w)))
            else:
                x = self.new_pub(d["name"]); self.bind(d["name"], ("pub", x, w, sg, d["id"]))
                if init is not None:
                    mark = len(self.out[-1])
                    try:
                        e, w2, s2 = self.pub(init); self.emit("SPub %d (%s)" % (x, conv_p(e, w2, s2, w)))
                    except Secret:
                        del self.out[-1][mark:]
                        self.datavars.add(d["id"]); raise Demote()
            return
        v = vec_of(t)
        if v:
            x = self.new_data(v[0] * v[1]); self.bind(d["name"], ("data", x, v[0] * v[1], v[2], d["id"]))
            if init is not None:
                e, w2, s2 = self.data(init); self.emit("SData %d (%s)" % (x, e))
            return
        if t.endswith("*"):
            body = self.body_stack[-1] if self.body_stack else None
            if body is not None and self.count_ptr_updates(body, d["name"]) <= (0 if init is not None else 1):
                # assigned exactly once (here or later) and never moved: bound to the place it is given, no variable
                info = ["ptr", None, None, self.pointee(t), None, None, None, "single"]
                self.bind(d["name"], info)
                if init is not None: self.assign_ptr(info, init)
                return
            x = self.new_pub(d["name"]); z = self.new_pub(d["name"] + "_null")
            info = ["ptr", None, "PVar %d" % x, self.pointee(t), "PVar %d" % z, x, z]
            self.bind(d["name"], info)
            if init is not None: self.assign_ptr(info, init)
            return
        m = re.match(r"(.*?)\s*\[(\d+)\]$", t)
        if tq in self.tu.layouts or t in self.tu.layouts or m:
            size = self.sizeof(t)
            r = self.region(d["name"], size); self.bind(d["name"], ("obj", r, "PConst 0", tq if tq in self.tu.layouts else t))
            if init is not None:
                if init.get("kind") in ("InitListExpr",): self.bad(d, "aggregate initialiser")
                src = self.lvalue(init)
                if src[0] != "obj": self.bad(d, "aggregate initialiser")
                self.emit("SCopy %d (PConst 0) %d (%s) (PConst %d)" % (r, src[1], src[2], size))
            return
        self.bad(d, "declaration of type '%s'" % t)
    def count_ptr_updates(self, body, name):
        cnt = [0]
        def walk(n):
            if not isinstance(n, dict): return
            k = n.get("kind")
            if k in ("BinaryOperator", "CompoundAssignOperator") and (k == "CompoundAssignOperator" or n.get("opcode") == "="):
                t = strip_casts(n["inner"][0])
                if t.get("kind") == "DeclRefExpr" and t["referencedDecl"]["name"] == name: cnt[0] += 1 if k == "BinaryOperator" else 99
            if k == "UnaryOperator" and n.get("opcode") in ("++", "--", "&"):
                t = strip_casts(n["inner"][0])
                if t.get("kind") == "DeclRefExpr" and t["referencedDecl"]["name"] == name: cnt[0] += 99
            if k in ("ForStmt", "WhileStmt", "DoStmt"):
                before = cnt[0]
                for c in n.get("inner", []) or []: walk(c)
                if cnt[0] > before: cnt[0] += 99          # assigned inside a loop: not single
                return
            for c in n.get("inner", []) or []: walk(c)
        walk(body); return cnt[0]
    def assign_ptr(self, info, rhs):
        r, off, pt, nl = self.ptr(rhs)
        if len(info) > 7 and info[7] == "single":
            if info[2] is not None: raise Unsupported("second assignment to a single-assignment pointer at %s" % loc_of(rhs))
            info[1] = r; info[2] = off; info[4] = nl
            return
        if r is not None:
            if info[1] is None: info[1] = r
            elif info[1] != r: raise Unsupported("pointer variable bound to two different regions at %s" % loc_of(rhs))
        if info[5] is None: raise Unsupported("assignment to a pointer bound to a fixed place at %s" % loc_of(rhs))
        self.emit("SPub %d (%s)" % (info[5], off))
        if info[6] is not None: self.emit("SPub %d (%s)" % (info[6], nl))
        elif nl != info[4]: raise Unsupported("null-ness of a parameter pointer changes at %s" % loc_of(rhs))

    def effect(self, s):
        """expression evaluated for its side effects"""
        s = unparen(s); k = s.get("kind")
        if k == "BinaryOperator" and s["opcode"] == ",":
            self.effect(s["inner"][0]); self.effect(s["inner"][1]); return
        if k == "CallExpr":
            self.call(s); return
        if k == "UnaryOperator" and s.get("opcode") in ("++", "--"):
            lv = self.lvalue(s["inner"][0]); op = "PAdd" if s["opcode"] == "++" else "PSub"
            if lv[0] == "ptr":
                if lv[5] is None: self.bad(s, "increment of a pointer bound to a fixed place")
                self.emit("SPub %d (PBin %s 64 (PVar %d) (PConst %d))" % (lv[5], op, lv[5], self.sizeof(lv[3]))); return
            if lv[0] == "pub":
                self.emit("SPub %d (PBin %s %d (PVar %d) (PConst 1))" % (lv[1], op, lv[2], lv[1])); return
            raise Unsupported("secret-dependent arithmetic: %s on data at %s" % (s["opcode"], loc_of(s)))
        if k in ("BinaryOperator", "CompoundAssignOperator") and (k == "CompoundAssignOperator" or s["opcode"] == "="):
            self.assign(s); return
        if k in ("ImplicitCastExpr", "CStyleCastExpr"):
            self.effect(s["inner"][0]); return
        self.bad(s, "expression statement of kind %s" % k)

    def assign(self, s):
        o = s["opcode"]; lhs, rhs = s["inner"]
        lv = self.lvalue(lhs)
        if lv[0] == "ptr":
            if o == "=": self.assign_ptr(lv, rhs); return
            if o in ("+=", "-="):
                e, w, sg = self.pubsize(rhs); e = conv_p(e, w, sg, 64); es = self.sizeof(lv[3])
                step = e if es == 1 else "PBin PMul 64 (%s) (PConst %d)" % (e, es)
                if lv[5] is None: self.bad(s, "update of a pointer bound to a fixed place")
                self.emit("SPub %d (PBin %s 64 (PVar %d) (%s))" % (lv[5], "PAdd" if o == "+=" else "PSub", lv[5], step)); return
            self.bad(s, "pointer assignment %s" % o)
        if lv[0] == "obj":
            if o != "=": self.bad(s, "aggregate compound assignment")
            src = self.lvalue(rhs)
            if src[0] != "obj": self.bad(s, "aggregate assignment")
            self.emit("SCopy %d (%s) %d (%s) (PConst %d)" % (lv[1], lv[2], src[1], src[2], self.sizeof(lv[3]))); return
        # scalar target
        if lv[0] == "pub" or (lv[0] == "mem" and lv[6]):
            w, sg = (lv[2], lv[3]) if lv[0] == "pub" else (lv[3] * 8, lv[4])
            mark = len(self.out[-1])
            try:
                e = self.pub_rhs(s, lv, w, sg)
            except Secret as ex:
                del self.out[-1][mark:]
                if lv[0] == "pub":
                    self.datavars.add(lv[4]); raise Demote()
                raise Unsupported("secret value stored into a public field: %s" % ex)
            if lv[0] == "pub": self.emit("SPub %d (%s)" % (lv[1], e))
            else:
                m = re.match(r"^PConst (\d+)$", lv[2])
                self.emit("SPStore %d %d %d (%s)" % (lv[1], int(m.group(1)), lv[3], e))
            return
        if lv[0] == "data": cur, w, sg = "DLocal %d" % lv[1], lv[2], lv[3]
        else: cur, w, sg = "DLoad %d (%s) %d" % (lv[1], lv[2], lv[3]), lv[3] * 8, lv[4]
        if o == "=":
            e, w2, s2 = self.data(rhs)
        else:
            ct = strip_q(s.get("computeResultType", {}).get("desugaredQualType") or s.get("computeResultType", {}).get("qualType") or "")
            cw, cs = WIDTHS.get(ct) or ((vec_of(ct)[0] * vec_of(ct)[1], vec_of(ct)[2]) if vec_of(ct) else (w, sg))
            a = conv_d(cur, w, sg, cw); op = o[:-1]
            if op in ("&", "|", "^"):
                b, wb, sb = self.data(rhs); b = conv_d(b, wb, sb, cw)
                e = "DBin %s (%s) (%s)" % ({"&": "BAnd", "|": "BOr", "^": "BXor"}[op], a, b)
            elif op in ("<<", ">>"):
                kk = self.try_const(rhs)
                if kk is None: raise Unsupported("secret-dependent or non-constant shift count at %s" % loc_of(s))
                v = vec_of(ct); lw = v[0] if v else cw
                e = ("DShl %d (%s) %d" % (lw, a, kk)) if op == "<<" else ("%s %d (%s) %d" % ("DShrA" if cs else "DShrL", lw, a, kk))
            elif op == "+" and not vec_of(ct):
                b, wb, sb = self.data(rhs); b = conv_d(b, wb, sb, cw)
                e = "DAdd (%s) (%s)" % (a, b)
            else:
                raise Unsupported("secret-dependent arithmetic: %s on data at %s (only & | ^ ~ << >> are data operators)" % (o, loc_of(s)))
            w2, s2 = cw, cs
        e = conv_d(e, w2, s2, w)
        if lv[0] == "data": self.emit("SData %d (%s)" % (lv[1], e))
        else: self.emit("SDStore %d (%s) %d (%s)" % (lv[1], lv[2], lv[3], e))
    def pub_rhs(self, s, lv, w, sg):
        o = s["opcode"]; rhs = s["inner"][1]
        cur = ("PVar %d" % lv[1]) if lv[0] == "pub" else "PField %d %d %d" % (lv[1], int(re.match(r"^PConst (\d+)$", lv[2]).group(1)), lv[3])
        e, w2, s2 = self.pub(rhs)
        if o == "=": return conv_p(e, w2, s2, w)
        ct = strip_q(s.get("computeResultType", {}).get("desugaredQualType") or s.get("computeResultType", {}).get("qualType") or "")
        cw, cs = WIDTHS.get(ct, (w, sg))
        a = conv_p(cur, w, sg, cw); b = conv_p(e, w2, s2, cw); op = o[:-1]
        if op in ("<<", ">>"):
            b = e
        if op in ("/", "%") and not self.try_const(rhs): self.bad(s, "division by a non-constant")
        name = {"+": "PAdd", "-": "PSub", "*": "PMul", "/": "PDiv", "%": "PMod", "&": "PAnd", "|": "POr", "^": "PXor", "<<": "PShl", ">>": ("PSar" if cs else "PShr")}[op]
        return conv_p("PBin %s %d (%s) (%s)" % (name, cw, a, b), cw, cs, w)


def translate_function(tu, fname, pubfields, alias=None, sizes=None, extra_pub_params=(), ptrfields=None, indirect=None, procs=None):
    """Returns dict: regions, fields, params (public parameter locals in order), code (SIR statement list as a Coq term), ..."""
    f = tu.funcs[fname]
    datavars = set()
    for attempt in range(64):
        g = SGen(tu, pubfields, datavars)
        g.ptrfields = ptrfields or {}; g.indirect = indirect or {}; g.procs = procs or {}
        try:
            info = _translate(g, f, alias or {}, sizes or {})
            return info
        except Demote:
            continue
    raise Unsupported("%s: classification of locals did not stabilise" % fname)

def _translate(g, f, alias, sizes):
    params = [c for c in f["inner"] if c.get("kind") == "ParmVarDecl"]
    body = [c for c in f["inner"] if c.get("kind") == "CompoundStmt"][0]
    pinfo = []
    scope = {}
    byname = {}
    for p in params:
        nm = p["name"]
        if g.is_ptr_type(p):
            pt = g.pointee(ctype(p))
            if nm in alias and alias[nm] in byname:
                r = byname[alias[nm]]
            else:
                size = sizes.get(nm)
                if size is None:
                    if pt in ("void", "unsigned char", "uint8_t", "char"): raise Unsupported("%s: size of the buffer '%s' is not given" % (f["name"], nm))
                    size = g.sizeof(pt)
                r = g.region(nm, size)
            byname[nm] = r
            z = g.new_pub(nm + "_null")
            if g.assigned_in(body, nm):
                x = g.new_pub(nm); g.emit("SPub %d (PConst 0)" % x); off = "PVar %d" % x
            else: x = None; off = "PConst 0"
            scope[nm] = ["ptr", r, off, pt, "PVar %d" % z, x, None]
            pinfo.append({"name": nm, "kind": "ptr", "region": r, "null": z})
        else:
            st = g.scalar_type(p)
            if not st: g.bad(p, "parameter type")
            x = g.new_pub(nm); scope[nm] = ("pub", x, st[0], st[1], p["id"])
            if p["id"] in g.datavars: raise Unsupported("%s: scalar parameter '%s' is used as data" % (f["name"], nm))
            pinfo.append({"name": nm, "kind": "scalar", "var": x, "width": st[0]})
    g.scopes = [{}, scope]
    # globals with static storage used as constants: not supported yet in whole functions (handled by the caller binding regions)
    rt = strip_q(f["type"]["qualType"].split("(")[0])
    rinfo = {"id": f["id"], "void": rt == "void", "tail_only": g.returns_only_at_tail(body)}
    if not rinfo["void"]:
        w, s = WIDTHS[rt]; rinfo.update(sort="pub", var=g.new_pub("ret"), w=w, s=s)
    if not rinfo["tail_only"]:
        rinfo["done"] = g.new_pub("done"); g.emit("SPub %d (PConst 0)" % rinfo["done"])
    g.ret_stack.append(rinfo)
    g.body_stack.append(body)
    g.block(body)
    return {"name": f["name"], "regions": g.regions, "fields": g.fields, "params": pinfo, "code": g.ginit + g.out[0], "globals": sorted(g.gregions),
            "ret": rinfo.get("var"), "npub": g.npub, "extra_inputs": g.extra_inputs, "pubnames": g.pubnames, "dwidths": g.dwidths}

def coq_list(items, indent="  "):
    return "[\n" + indent + (";\n" + indent).join(items) + "\n]"

def emit_function(info, name=None):
    name = name or info["name"]
    out = []
    out.append("Definition %s_sizes : list nat := [%s]." % (name, "; ".join(str(s) for _, s in info["regions"])))
    out.append("Definition %s_regions : list string := [%s]." % (name, "; ".join('"%s"' % n for n, _ in info["regions"])))
    out.append("Definition %s_fields : list field := [%s]." % (name, "; ".join("(%d, %d, %d)" % f[:3] for f in info["fields"])))
    out.append("Definition %s_code : list sstmt := %s." % (name, coq_list(info["code"])))
    return "\n".join(out)

if __name__ == "__main__":
    repo, cfile, fn = sys.argv[1:4]
    flags = sys.argv[4:]
    tu = TU(repo, cfile, flags)
    try:
        info = translate_function(tu, fn, {("Skinny128Key_t", "rounds"), ("Skinny64Key_t", "rounds"), ("MantisKey_t", "rounds")},
                                  sizes={"key": 48, "tweak": 16, "input": 16, "output": 16})
    except Unsupported as e:
        sys.stderr.write("c2sir: unsupported construct: %s\n" % e); sys.exit(3)
    print(emit_function(info))
    print("(* params: %s *)" % json.dumps(info["params"]))
    print("(* public locals: %s *)" % ", ".join("%d=%s" % (i, n) for i, n in enumerate(info["pubnames"])))
