#!/usr/bin/env python3
"""c2ir.py — translates bit-level kernels of the C sources into the straight-line IR of coq/IR.v, from clang's typed
JSON AST of the CURRENT source, for one build configuration (the -D flags given).  Anything outside the supported
subset is a hard error naming the construct and the source line.

  c2ir.py <repo> <out.v> <module-name> [clang flags...]

Kernels are described in KERNELS below: (C file, function, kind, ...).  Kinds:
  pure     function of by-value word parameters returning a word: args region 0 (little-endian, in order), result region 1
  cells    void function taking one pointer to a cells union: the union is region 0 (read and written)
  loop     the body of the (only / n-th) for-loop of a function, with named objects bound to regions
"""
import json, os, re, subprocess, sys

WIDTHS = {"unsigned char": (8, False), "uint8_t": (8, False), "unsigned short": (16, False), "uint16_t": (16, False),
          "unsigned int": (32, False), "uint32_t": (32, False), "int": (32, True), "unsigned long": (64, False),
          "uint64_t": (64, False), "unsigned long long": (64, False), "long": (64, True), "long long": (64, True),
          "unsigned": (32, False), "short": (16, True), "char": (8, True), "signed char": (8, True)}

class Unsupported(Exception):
    pass

def vec_of(t):
    """(element width, lanes, signed) of a GCC/clang vector type string, or None"""
    m = re.match(r"^(?:const\s+)?([\w ]+?)\s*__attribute__\(\((?:ext_vector_type|__vector_size__|vector_size)\((\d+)(?:\s*\*\s*sizeof\(([\w ]+)\))?\)\)\)", t.strip())
    if not m: return None
    et = m.group(1).strip()
    if et not in WIDTHS: return None
    ew, sg = WIDTHS[et]
    n = int(m.group(2))
    if "vector_size" in t and "ext_vector_type" not in t:
        n = n * (WIDTHS[m.group(3).strip()][0] // 8 if m.group(3) else 1) * 8 // ew
    return ew, n, sg

def loc_of(n):
    r = n.get("range", {}).get("begin", {})
    l = r.get("line") or r.get("spellingLoc", {}).get("line") or r.get("expansionLoc", {}).get("line")
    return "line %s" % l if l else "?"

def ctype(n):
    t = n.get("type", {})
    return t.get("desugaredQualType") or t.get("qualType")

def strip_q(t):
    return re.sub(r"\b(const|volatile|restrict)\b", "", t).replace("  ", " ").strip()

class TU:
    """one translation unit: functions, record layouts, global constant arrays"""
    def __init__(self, repo, cfile, flags):
        cmd = ["clang", "-fsyntax-only", "-Xclang", "-ast-dump=json", "-std=c99", "-msse2", "-mavx2",
               "-I" + os.path.join(repo, "include"), "-I" + os.path.join(repo, "src")] + flags + [os.path.join(repo, "src", cfile)]
        p = subprocess.run(cmd, capture_output=True, text=True)
        if p.returncode != 0:
            raise Unsupported("clang failed on %s: %s" % (cfile, p.stderr[-500:]))
        self.ast = json.loads(p.stdout)
        self.funcs = {}; self.records = {}; self.typedefs = {}; self.globals = {}
        for n in self.ast.get("inner", []):
            k = n.get("kind")
            if k == "FunctionDecl" and any(c.get("kind") == "CompoundStmt" for c in n.get("inner", [])):
                self.funcs[n["name"]] = n
            elif k == "RecordDecl" and n.get("completeDefinition"):
                self.records[n.get("id")] = n
            elif k == "TypedefDecl":
                self.typedefs[n["name"]] = n
            elif k == "VarDecl":
                self.globals[n["name"]] = n
        self.layouts = {}
        for name, td in self.typedefs.items():
            rec = self.find_record(td)
            if rec is not None:
                try:
                    self.layouts[name] = self.layout(rec)
                except Unsupported:
                    pass                                    # a record this translator never needs (system headers)

    def find_record(self, td):
        def walk(n):
            if n.get("kind") == "RecordType" and "decl" in n:
                return self.records.get(n["decl"].get("id"))
            for c in n.get("inner", []) or []:
                r = walk(c)
                if r is not None: return r
            if "ownedTagDecl" in n:
                return self.records.get(n["ownedTagDecl"].get("id"))
            return None
        return walk(td)

    def type_size(self, t):
        t = strip_q(t)
        m = re.match(r"(.*?)\s*\[(\d+)\]$", t)
        if m:
            s, a = self.type_size(m.group(1)); return s * int(m.group(2)), a
        if t in WIDTHS: return WIDTHS[t][0] // 8, WIDTHS[t][0] // 8
        if t in self.layouts: return self.layouts[t]["size"], self.layouts[t]["align"]
        v = vec_of(t) or (vec_of(strip_q(ctype_of_typedef(self, t))) if t in self.typedefs else None)
        if v: return v[0] * v[1] // 8, v[0] * v[1] // 8
        if t.endswith("*") or "(*)" in t: return 8, 8
        raise Unsupported("size of type '%s'" % t)

    def layout(self, rec):
        union = rec.get("tagUsed") == "union"
        off = 0; size = 0; align = 1; fields = {}
        for f in rec.get("inner", []):
            if f.get("kind") != "FieldDecl": continue
            ft = f["type"].get("desugaredQualType") or f["type"]["qualType"]
            s, a = self.type_size(f["type"]["qualType"]) if self.simple(f["type"]["qualType"]) else self.type_size(ft)
            if union:
                fields[f["name"]] = (0, f["type"]["qualType"]); size = max(size, s)
            else:
                off = (off + a - 1) // a * a
                fields[f["name"]] = (off, f["type"]["qualType"]); off += s; size = off
            align = max(align, a)
        size = (size + align - 1) // align * align
        return {"fields": fields, "size": size, "align": align}

    def simple(self, t):
        try:
            self.type_size(t); return True
        except Unsupported:
            return False

class Gen:
    """translation state for one kernel"""
    def __init__(self, tu, opaque):
        self.tu = tu; self.opaque = opaque          # opaque: function name -> number
        self.stmts = []; self.nlocals = 0; self.lwidth = []
        self.scopes = [{}]                           # name -> ('local', idx, width, signed) | ('region', r, base_off, typename) | ('const', value, width, signed)
        self.regions = []                            # (name, size)

    # ---- helpers
    def new_local(self, width):
        i = self.nlocals; self.nlocals += 1; self.lwidth.append(width); return i
    def lookup(self, name):
        for s in reversed(self.scopes):
            if name in s: return s[name]
        raise Unsupported("unknown identifier '%s'" % name)
    def region(self, name, size):
        self.regions.append((name, size)); return len(self.regions) - 1
    def emit_local(self, idx, e):
        self.stmts.append("SLocal %d (%s)" % (idx, e))
    def emit_store(self, r, off, nbytes, e):
        self.stmts.append("SStore %d %d %d (%s)" % (r, off, nbytes, e))

    def vtype(self, n):
        return vec_of(strip_q(ctype(n)))
    def wtype(self, n):
        t = strip_q(ctype(n))
        if t in WIDTHS: return WIDTHS[t]
        v = vec_of(t)
        if v: return (v[0] * v[1], v[2])
        t2 = strip_q(n["type"]["qualType"])
        if t2 in WIDTHS: return WIDTHS[t2]
        raise Unsupported("type '%s' at %s" % (t, loc_of(n)))

    # ---- constant evaluation (shift counts, array indices)
    def const(self, n):
        k = n.get("kind")
        if k == "IntegerLiteral": return int(n["value"])
        if k in ("ParenExpr", "ImplicitCastExpr", "CStyleCastExpr", "ConstantExpr"): return self.const(n["inner"][-1])
        if k == "DeclRefExpr":
            v = self.lookup(n["referencedDecl"]["name"])
            if v[0] == "const": return v[1]
            raise Unsupported("'%s' is not a compile-time constant at %s" % (n["referencedDecl"]["name"], loc_of(n)))
        if k == "BinaryOperator":
            a, b = self.const(n["inner"][0]), self.const(n["inner"][1]); o = n["opcode"]
            return {"+": a + b, "-": a - b, "*": a * b, "<<": a << b, ">>": a >> b, "&": a & b, "|": a | b, "^": a ^ b}[o] if o in "+-*<<>>&|^" else self.bad(n)
        if k == "UnaryOperator" and n["opcode"] == "-": return -self.const(n["inner"][0])
        raise Unsupported("constant expression of kind %s at %s" % (k, loc_of(n)))
    def bad(self, n):
        raise Unsupported("%s at %s" % (n.get("kind"), loc_of(n)))

    # ---- lvalues: returns ('local', idx, width, signed) or ('mem', region, offset, nbytes, signed)
    def lvalue(self, n):
        k = n.get("kind")
        if k == "ParenExpr": return self.lvalue(n["inner"][0])
        if k == "DeclRefExpr":
            v = self.lookup(n["referencedDecl"]["name"])
            if v[0] == "local": return v
            if v[0] == "region":                                   # a whole object: only meaningful under member access
                tn = strip_q(v[3])
                vt = vec_of(tn) or (vec_of(strip_q(ctype_of_typedef(self.tu, tn))) if tn in self.tu.typedefs else None)
                if vt: return ("mem", v[1], v[2], vt[0] * vt[1] // 8, vt[2])      # a vector variable bound to a region
                return ("obj", v[1], v[2], v[3])
            raise Unsupported("lvalue '%s' at %s" % (n["referencedDecl"]["name"], loc_of(n)))
        if k == "MemberExpr":
            base = self.lvalue_obj(n["inner"][0])
            bt = strip_q(base[3])
            if n.get("isArrow") and bt.endswith("*"): bt = bt[:-1].strip()
            base = (base[0], base[1], base[2], bt)
            lay = self.tu.layouts.get(bt)
            if lay is None: raise Unsupported("layout of '%s' at %s" % (base[3], loc_of(n)))
            off, ft = lay["fields"][n["name"]]
            ft = strip_q(ft)
            if ft in WIDTHS or (self.tu.typedefs.get(ft) is not None and strip_q(ctype_of_typedef(self.tu, ft)) in WIDTHS):
                w, s = WIDTHS.get(ft) or WIDTHS[strip_q(ctype_of_typedef(self.tu, ft))]
                return ("mem", base[1], base[2] + off, w // 8, s)
            return ("obj", base[1], base[2] + off, ft)
        if k == "ArraySubscriptExpr":
            base = self.lvalue_obj(n["inner"][0]); idx = self.const(n["inner"][1])
            m = re.match(r"(.*?)\s*\[(\d+)\]$", strip_q(base[3]))
            if m:
                et = m.group(1).strip()
            elif strip_q(base[3]).endswith("*"):
                et = strip_q(base[3])[:-1].strip()
            else:
                raise Unsupported("subscript of '%s' at %s" % (base[3], loc_of(n)))
            es, _ = self.tu.type_size(et)
            if et in WIDTHS:
                return ("mem", base[1], base[2] + idx * es, es, WIDTHS[et][1])
            vt = self.vtype(n)
            if vt: return ("mem", base[1], base[2] + idx * es, es, vt[2])
            return ("obj", base[1], base[2] + idx * es, et)
        if k == "ImplicitCastExpr" and n.get("castKind") in ("ArrayToPointerDecay", "NoOp", "LValueToRValue"):
            return self.lvalue(n["inner"][0])
        if k == "UnaryOperator" and n["opcode"] == "*":
            t0 = n["inner"][0]
            while t0.get("kind") in ("ParenExpr", "ImplicitCastExpr"): t0 = t0["inner"][0]
            if t0.get("kind") == "DeclRefExpr":
                v = self.lookup(t0["referencedDecl"]["name"])
                if v[0] == "localptr": return ("local", v[1], v[2], v[3])
            b = self.lvalue_obj(n["inner"][0])
            t = strip_q(b[3]); t = t[:-1].strip() if t.endswith("*") else t
            if t in WIDTHS: return ("mem", b[1], b[2], WIDTHS[t][0] // 8, WIDTHS[t][1])
            vt = self.vtype(n)
            if vt: return ("mem", b[1], b[2], vt[0] * vt[1] // 8, vt[2])
            return ("obj", b[1], b[2], t)
        raise Unsupported("lvalue of kind %s at %s" % (k, loc_of(n)))
    def lvalue_obj(self, n):
        """an expression denoting an object (or pointer to one): returns ('obj', region, offset, typename)"""
        k = n.get("kind")
        if k in ("ParenExpr",) or (k == "ImplicitCastExpr" and n.get("castKind") in ("LValueToRValue", "ArrayToPointerDecay", "NoOp", "BitCast")):
            return self.lvalue_obj(n["inner"][0])
        if k == "UnaryOperator" and n["opcode"] == "&":
            return self.lvalue_obj(n["inner"][0])
        if k == "CStyleCastExpr" and n.get("castKind") in ("BitCast", "NoOp"):
            b = self.lvalue_obj(n["inner"][0]); return ("obj", b[1], b[2], strip_q(n["type"]["qualType"]))
        if k == "BinaryOperator" and n.get("opcode") == "+" and "*" in n["type"]["qualType"]:
            b = self.lvalue_obj(n["inner"][0]); kk = self.const(n["inner"][1])
            pt = strip_q(b[3]); pointee = pt[:-1].strip() if pt.endswith("*") else pt
            es = 1 if pointee in ("void", "") else self.tu.type_size(pointee)[0]
            return ("obj", b[1], b[2] + kk * es, b[3])
        if k == "DeclRefExpr":
            v = self.lookup(n["referencedDecl"]["name"])
            if v[0] == "region": return ("obj", v[1], v[2], v[3])
            raise Unsupported("'%s' is not an object with a region at %s" % (n["referencedDecl"]["name"], loc_of(n)))
        lv = self.lvalue(n)
        if lv[0] == "obj": return lv
        raise Unsupported("object expression of kind %s at %s" % (k, loc_of(n)))

    # ---- rvalues: returns (ir, width, signed)
    def expr(self, n):
        k = n.get("kind")
        if k in ("ParenExpr", "ConstantExpr"): return self.expr(n["inner"][0])
        if k == "IntegerLiteral":
            w, s = self.wtype(n); return ("EConst %d %d" % (w, int(n["value"]) & ((1 << w) - 1)), w, s)
        if k == "DeclRefExpr":
            v = self.lookup(n["referencedDecl"]["name"])
            if v[0] == "local": return ("ELocal %d" % v[1], v[2], v[3])
            if v[0] == "const": return ("EConst %d %d" % (v[2], v[1] & ((1 << v[2]) - 1)), v[2], v[3])
            if v[0] == "region":
                lv = self.lvalue(n)
                if lv[0] == "mem": return ("ELoad %d %d %d" % (lv[1], lv[2], lv[3]), lv[3] * 8, lv[4])
            self.bad(n)
        if k == "ArraySubscriptExpr" and self.vtype(n["inner"][0]):
            # lane of a vector value
            ew, ln, sg = self.vtype(n["inner"][0]); idx = self.const(n["inner"][1])
            e, w, s = self.expr(n["inner"][0])
            return ("ESlice (%s) %d %d" % (e, idx * ew, ew), ew, sg)
        if k in ("CompoundLiteralExpr",):
            return self.expr(n["inner"][0])
        if k == "InitListExpr" and self.vtype(n):
            ew, ln, sg = self.vtype(n)
            parts = []
            for c in n["inner"]:
                e, w, s = self.expr(c)
                if w != ew: e = ("EZext %d (%s)" % (ew, e)) if (ew < w or not s) else ("ESext %d (%s)" % (ew, e))
                parts.append(e)
            if len(parts) != ln: raise Unsupported("vector initialiser with %d of %d lanes at %s" % (len(parts), ln, loc_of(n)))
            return ("EConcat [%s]" % "; ".join(parts), ew * ln, sg)
        if k == "UnaryOperator" and n.get("opcode") == "*":
            t = n["inner"][0]
            while t.get("kind") in ("ParenExpr", "ImplicitCastExpr"): t = t["inner"][0]
            if t.get("kind") == "DeclRefExpr":
                v = self.lookup(t["referencedDecl"]["name"])
                if v[0] == "localptr": return ("ELocal %d" % v[1], v[2], v[3])
        if k in ("MemberExpr", "ArraySubscriptExpr") or (k == "UnaryOperator" and n.get("opcode") == "*"):
            lv = self.lvalue(n)
            if lv[0] != "mem": raise Unsupported("load of a non-scalar at %s" % loc_of(n))
            return ("ELoad %d %d %d" % (lv[1], lv[2], lv[3]), lv[3] * 8, lv[4])
        if k == "ImplicitCastExpr" or k == "CStyleCastExpr":
            ck = n.get("castKind")
            if ck in ("LValueToRValue", "NoOp"): return self.expr(n["inner"][0])
            if ck == "VectorSplat":
                ew, ln, sg = self.vtype(n)
                e, w, s = self.expr(n["inner"][0])
                if w != ew: e = ("EZext %d (%s)" % (ew, e)) if (ew < w or not s) else ("ESext %d (%s)" % (ew, e))
                return ("EConcat [%s]" % "; ".join([e] * ln), ew * ln, sg)
            if ck == "BitCast" and self.vtype(n) and self.vtype(n["inner"][0]):
                e, w, s = self.expr(n["inner"][0]); return (e, w, self.vtype(n)[2])
            if ck == "IntegralCast":
                e, w, s = self.expr(n["inner"][0]); w2, s2 = self.wtype(n)
                if w2 == w: return (e, w2, s2)
                if w2 < w or not s: return ("EZext %d (%s)" % (w2, e), w2, s2)
                return ("ESext %d (%s)" % (w2, e), w2, s2)
            raise Unsupported("cast kind %s at %s" % (ck, loc_of(n)))
        if k == "UnaryOperator":
            if n["opcode"] == "~":
                e, w, s = self.expr(n["inner"][0]); return ("ENot (%s)" % e, w, s)
            raise Unsupported("unary operator %s at %s" % (n["opcode"], loc_of(n)))
        if k == "BinaryOperator":
            o = n["opcode"]
            if o in ("&", "|", "^"):
                a, wa, sa = self.expr(n["inner"][0]); b, wb, sb = self.expr(n["inner"][1])
                if wa != wb: raise Unsupported("operand widths %d/%d of %s at %s" % (wa, wb, o, loc_of(n)))
                return ("EBin %s (%s) (%s)" % ({"&": "BAnd", "|": "BOr", "^": "BXor"}[o], a, b), wa, self.wtype(n)[1])
            if o in ("<<", ">>"):
                a, wa, sa = self.expr(n["inner"][0]); kk = self.const(n["inner"][1])
                v = self.vtype(n["inner"][0]); lw = v[0] if v else wa
                if not (0 <= kk < lw): raise Unsupported("shift count %d at %s" % (kk, loc_of(n)))
                if o == "<<": return ("EShl %d (%s) %d" % (lw, a, kk), wa, sa)
                return ("%s %d (%s) %d" % ("EShrA" if sa else "EShrL", lw, a, kk), wa, sa)
            raise Unsupported("binary operator %s at %s" % (o, loc_of(n)))
        if k == "CallExpr":
            return self.call(n)
        raise Unsupported("expression of kind %s at %s" % (k, loc_of(n)))

    def call(self, n):
        callee = n["inner"][0]
        while callee.get("kind") in ("ImplicitCastExpr", "ParenExpr"): callee = callee["inner"][0]
        name = callee["referencedDecl"]["name"]
        args = n["inner"][1:]
        if name in OPAQUE_PROCS and OPAQUE_PROCS[name] is not None and self.opaque:
            # a separately verified procedure that applies word function f to every pointer argument in place
            for a in args:
                t = a
                while t.get("kind") in ("ParenExpr", "ImplicitCastExpr"): t = t["inner"][0]
                if t.get("kind") == "UnaryOperator" and t.get("opcode") == "&":
                    lv = self.lvalue(t["inner"][0])
                    if lv[0] == "local": self.emit_local(lv[1], "ECall %d (ELocal %d)" % (OPAQUE_PROCS[name], lv[1]))
                    elif lv[0] == "mem": self.emit_store(lv[1], lv[2], lv[3], "ECall %d (ELoad %d %d %d)" % (OPAQUE_PROCS[name], lv[1], lv[2], lv[3]))
                    elif lv[0] == "obj":
                        nb = self.tu.type_size(lv[3])[0]
                        self.emit_store(lv[1], lv[2], nb, "ECall %d (ELoad %d %d %d)" % (OPAQUE_PROCS[name], lv[1], lv[2], nb))
                    else: raise Unsupported("opaque procedure argument at %s" % loc_of(a))
                else: raise Unsupported("opaque procedure argument at %s" % loc_of(a))
            return ("EConst 1 0", 1, False)
        if name in self.opaque:
            if len(args) != 1: raise Unsupported("opaque call with %d arguments" % len(args))
            e, w, s = self.expr(args[0])
            return ("ECall %d (%s)" % (self.opaque[name], e), w, s)
        f = self.tu.funcs.get(name)
        if f is None: raise Unsupported("call to unknown function %s at %s" % (name, loc_of(n)))
        return self.inline(f, args)

    def inline(self, f, args):
        params = [c for c in f["inner"] if c.get("kind") == "ParmVarDecl"]
        body = [c for c in f["inner"] if c.get("kind") == "CompoundStmt"][0]
        scope = {}
        for p, a in zip(params, args):
            pt = strip_q(ctype(p))
            if pt.endswith("*"):
                t = a
                while t.get("kind") in ("ParenExpr", "ImplicitCastExpr"): t = t["inner"][0]
                if t.get("kind") == "UnaryOperator" and t.get("opcode") == "&":
                    try:
                        lv = self.lvalue(t["inner"][0])
                    except Unsupported:
                        lv = None
                    if lv and lv[0] == "local":
                        scope[p["name"]] = ("localptr", lv[1], lv[2], lv[3]); continue
                o = self.lvalue_obj(a)
                pointee = strip_q(p["type"]["qualType"]); pointee = pointee[:-1].strip() if pointee.endswith("*") else pointee
                scope[p["name"]] = ("region", o[1], o[2], pointee + " *")
            else:
                try:
                    c = self.const(a); w, s = WIDTHS[pt]; scope[p["name"]] = ("const", c, w, s)
                except (Unsupported, KeyError):
                    e, w, s = self.expr(a)
                    vt = vec_of(pt)
                    w2, s2 = (vt[0] * vt[1], vt[2]) if vt else WIDTHS[pt]
                    if w2 != w: e = ("EZext %d (%s)" % (w2, e)) if (w2 < w or not s) else ("ESext %d (%s)" % (w2, e))
                    i = self.new_local(w2); self.emit_local(i, e); scope[p["name"]] = ("local", i, w2, s2)
        self.scopes.append(scope)
        ret = self.block(body, top=True)
        self.scopes.pop()
        return ret

    # ---- statements; returns the translated return expression if a ReturnStmt was met
    def block(self, n, top=False):
        ret = None
        self.scopes.append({})
        for s in n.get("inner", []):
            r = self.stmt(s)
            if r is not None: ret = r
        self.scopes.pop()
        return ret

    def stmt(self, s):
        k = s.get("kind")
        if k == "CompoundStmt": return self.block(s)
        if k == "NullStmt": return None
        if k == "DeclStmt":
            for d in s["inner"]:
                if d.get("kind") != "VarDecl": self.bad(d)
                t = strip_q(ctype(d)); tq = strip_q(d["type"]["qualType"])
                if t in WIDTHS:
                    w, sg = WIDTHS[t]; i = self.new_local(w); self.scopes[-1][d["name"]] = ("local", i, w, sg)
                    if d.get("inner"):
                        e, w2, s2 = self.expr(d["inner"][-1])
                        if w2 != w: e = ("EZext %d (%s)" % (w, e)) if (w < w2 or not s2) else ("ESext %d (%s)" % (w, e))
                        self.emit_local(i, e)
                elif vec_of(t):
                    ew, ln, sg = vec_of(t); i = self.new_local(ew * ln); self.scopes[-1][d["name"]] = ("local", i, ew * ln, sg)
                    if d.get("inner"):
                        e, w2, s2 = self.expr(d["inner"][-1]); self.emit_local(i, e)
                elif tq in self.tu.layouts:                         # a local cells union / struct: its own region
                    r = self.region(d["name"], self.tu.layouts[tq]["size"]); self.scopes[-1][d["name"]] = ("region", r, 0, tq)
                    if d.get("inner"):                              # "MantisCells_t tmp = ks->k0;" : copy
                        src = self.lvalue_obj(d["inner"][-1])
                        for b in range(self.tu.layouts[tq]["size"]):
                            self.emit_store(r, b, 1, "ELoad %d %d 1" % (src[1], src[2] + b))
                else:
                    raise Unsupported("declaration of type '%s' at %s" % (t, loc_of(d)))
            return None
        if k == "ReturnStmt":
            return self.expr(s["inner"][0]) if s.get("inner") else None
        if k == "UnaryOperator" and s.get("opcode") in ("++", "--"):
            t = s["inner"][0]
            while t.get("kind") in ("ParenExpr", "ImplicitCastExpr"): t = t["inner"][0]
            if t.get("kind") == "DeclRefExpr" and self.lookup(t["referencedDecl"]["name"])[0] == "region":
                return None                                      # ++r / --r on a pointer bound to a region
            raise Unsupported("increment at %s" % loc_of(s))
        if k == "CompoundAssignOperator" and s.get("opcode") in ("+=", "-="):
            t = s["inner"][0]
            while t.get("kind") in ("ParenExpr", "ImplicitCastExpr"): t = t["inner"][0]
            if t.get("kind") == "DeclRefExpr" and self.lookup(t["referencedDecl"]["name"])[0] == "region":
                return None                                      # r += 2 on a pointer bound to a region
        if k in ("BinaryOperator", "CompoundAssignOperator"):
            return self.assign(s)
        if k == "IfStmt":
            # only `if (<compile-time constant>)`: the tweaked flag of set_tk1 bound as a constant
            c = self.const(s["inner"][0])
            if c: return self.stmt(s["inner"][1])
            return self.stmt(s["inner"][2]) if len(s["inner"]) > 2 else None
        if k == "CallExpr":
            self.call(s); return None
        if k == "ParenExpr": return self.stmt(s["inner"][0])
        raise Unsupported("statement of kind %s at %s" % (k, loc_of(s)))

    def assign(self, s):
        o = s["opcode"]
        if s["kind"] == "BinaryOperator":
            if o == ",":
                self.stmt(s["inner"][0]); self.stmt(s["inner"][1]); return None
            if o != "=": raise Unsupported("expression statement %s at %s" % (o, loc_of(s)))
        lhs, rhs = s["inner"]
        lv = self.lvalue(lhs)
        if lv[0] == "obj":                                         # struct assignment: byte copy
            src = self.lvalue_obj(rhs)
            size = self.tu.type_size(lv[3])[0]
            tmp = [self.new_local(8) for _ in range(size)]
            for b in range(size): self.emit_local(tmp[b], "ELoad %d %d 1" % (src[1], src[2] + b))
            for b in range(size): self.emit_store(lv[1], lv[2] + b, 1, "ELocal %d" % tmp[b])
            return None
        if lv[0] == "local": cur, w, sg = "ELocal %d" % lv[1], lv[2], lv[3]
        else: cur, w, sg = "ELoad %d %d %d" % (lv[1], lv[2], lv[3]), lv[3] * 8, lv[4]
        if o == "=":
            e, w2, s2 = self.expr(rhs)
        else:
            # compound assignment: computed in the promoted type recorded by clang, then converted back
            ct = strip_q(s.get("computeResultType", {}).get("desugaredQualType") or s.get("computeResultType", {}).get("qualType") or "")
            cw, cs = WIDTHS.get(ct, (w, sg))
            a = cur
            if cw != w: a = ("EZext %d (%s)" % (cw, a)) if (cw < w or not sg) else ("ESext %d (%s)" % (cw, a))
            op = o[:-1]
            if op in ("&", "|", "^"):
                b, wb, sb = self.expr(rhs)
                if wb != cw: b = ("EZext %d (%s)" % (cw, b)) if (cw < wb or not sb) else ("ESext %d (%s)" % (cw, b))
                e = "EBin %s (%s) (%s)" % ({"&": "BAnd", "|": "BOr", "^": "BXor"}[op], a, b)
            elif op in ("<<", ">>"):
                kk = self.const(rhs)
                e = ("EShl %d (%s) %d" % (cw, a, kk)) if op == "<<" else ("%s %d (%s) %d" % ("EShrA" if cs else "EShrL", cw, a, kk))
            else:
                raise Unsupported("compound assignment %s at %s" % (o, loc_of(s)))
            w2, s2 = cw, cs
        if w2 != w: e = ("EZext %d (%s)" % (w, e)) if (w < w2 or not s2) else ("ESext %d (%s)" % (w, e))
        if lv[0] == "local": self.emit_local(lv[1], e)
        else: self.emit_store(lv[1], lv[2], lv[3], e)
        return None

def ctype_of_typedef(tu, name):
    td = tu.typedefs[name]
    return td["type"].get("desugaredQualType") or td["type"]["qualType"]

# ----------------------------------------------------------------------
def kernel_pure(tu, fname, opaque):
    f = tu.funcs[fname]
    g = Gen(tu, opaque)
    params = [c for c in f["inner"] if c.get("kind") == "ParmVarDecl"]
    off = 0; scope = {}
    rin = g.region("args", 0)
    for p in params:
        w, s = WIDTHS[strip_q(ctype(p))]
        i = g.new_local(w); g.emit_local(i, "ELoad %d %d %d" % (rin, off, w // 8)); scope[p["name"]] = ("local", i, w, s); off += w // 8
    g.regions[rin] = ("args", off)
    rt = strip_q(f["type"]["qualType"].split("(")[0])
    rt = strip_q(ctype_of_typedef(tu, rt)) if rt in tu.typedefs else rt
    rw, _ = WIDTHS[rt]
    rout = g.region("result", rw // 8)
    g.scopes.append(scope)
    body = [c for c in f["inner"] if c.get("kind") == "CompoundStmt"][0]
    ret = g.block(body)
    if ret is None: raise Unsupported("%s: no return value" % fname)
    e, w, s = ret
    if w != rw: e = ("EZext %d (%s)" % (rw, e)) if (rw < w or not s) else ("ESext %d (%s)" % (rw, e))
    g.emit_store(rout, 0, rw // 8, e)
    return g

def kernel_cells(tu, fname, opaque):
    f = tu.funcs[fname]
    g = Gen(tu, opaque)
    params = [c for c in f["inner"] if c.get("kind") == "ParmVarDecl"]
    scope = {}
    for p in params:
        pt = strip_q(p["type"]["qualType"])
        if not pt.endswith("*"): raise Unsupported("%s: parameter %s is not a pointer" % (fname, p["name"]))
        base = pt[:-1].strip()
        r = g.region(p["name"], tu.type_size(base)[0]); scope[p["name"]] = ("region", r, 0, base + " *")
    g.scopes.append(scope)
    body = [c for c in f["inner"] if c.get("kind") == "CompoundStmt"][0]
    g.block(body)
    return g

def find_loops(n, out):
    if n.get("kind") == "ForStmt": out.append(n)
    for c in n.get("inner", []) or []:
        if c: find_loops(c, out)

def kernel_loop(tu, fname, nth, binds, opaque, consts=None, carried=None, sizes=None):
    """binds: C identifier -> (region name, type name) for objects the loop body uses (state, schedule, ks, tweak, ...)"""
    f = tu.funcs[fname]
    loops = []; find_loops(f, loops)
    body = loops[nth]["inner"][-1]
    g = Gen(tu, opaque)
    scope = {}
    for ident, (rname, tname) in binds.items():
        base = tname[:-1].strip() if tname.endswith("*") else tname
        r = g.region(rname, (sizes or {}).get(ident) or tu.type_size(base)[0]); scope[ident] = ("region", r, 0, tname)
    for ident, (val, w) in (consts or {}).items():
        scope[ident] = ("const", val, w, False)
    carried_l = []
    for ident, (rname, w, sg) in (carried or {}).items():       # scalar locals live across iterations (rc)
        r = g.region(rname, w // 8); i = g.new_local(w); scope[ident] = ("local", i, w, sg)
        g.emit_local(i, "ELoad %d 0 %d" % (r, w // 8)); carried_l.append((i, r, w))
    g.scopes.append(scope)
    # scalar locals of the function that the body assigns before use (temp, ...): declared, not initialised
    fbody = [c for c in f["inner"] if c.get("kind") == "CompoundStmt"][0]
    for st in fbody.get("inner", []):
        if st.get("kind") == "DeclStmt":
            for d in st["inner"]:
                t = strip_q(ctype(d))
                if d.get("kind") == "VarDecl" and t in WIDTHS and d["name"] not in scope:
                    w, sg = WIDTHS[t]; g.scopes[-1][d["name"]] = ("local", g.new_local(w), w, sg)
                elif d.get("kind") == "VarDecl" and vec_of(t) and d["name"] not in scope:
                    ew, ln, sg = vec_of(t); g.scopes[-1][d["name"]] = ("local", g.new_local(ew * ln), ew * ln, sg)
    g.stmt(body)
    for i, r, w in carried_l:
        g.emit_store(r, 0, w // 8, "ELocal %d" % i)
    return g

def emit(g, name):
    return ("Definition %s_sizes : list nat := [%s].\n" % (name, "; ".join(str(s) for _, s in g.regions)) +
            "Definition %s_regions : list string := [%s].\n" % (name, "; ".join('"%s"' % n for n, _ in g.regions)) +
            "Definition %s : list stmt := [\n  %s\n].\n" % (name, ";\n  ".join(g.stmts)))

# ----------------------------------------------------------------------
# kernel table and obligation files
OPAQUE_PROCS = {"skinny128_sbox_four": 0, "skinny128_sbox_two": 0, "skinny128_inv_sbox_four": 1, "skinny128_inv_sbox_two": 1}
OPAQUE = {"skinny128_sbox": 0, "skinny128_inv_sbox": 1, "skinny64_sbox": 2, "skinny64_inv_sbox": 3, "mantis_sbox": 4}
FULL = ("poly pxor pand pzero pone", "bool xorb andb false true")
XZ = ("poly pxor pzero", "bool xorb false")
Z = ("poly pzero", "bool false")
XZO = ("poly pxor pzero pone", "bool xorb false true")
# (C file, function, kind, spec, spec argument lists)
PURE = [
    ("skinny128-cipher.c", "skinny128_sbox", "k_sbox128", FULL), ("skinny128-cipher.c", "skinny128_inv_sbox", "k_inv_sbox128", FULL),
    ("skinny128-cipher.c", "skinny128_LFSR2", "k_lfsr2_128", XZ), ("skinny128-cipher.c", "skinny128_LFSR3", "k_lfsr3_128", XZ),
    ("skinny64-cipher.c", "skinny64_sbox", "k_sbox64", FULL), ("skinny64-cipher.c", "skinny64_inv_sbox", "k_inv_sbox64", FULL),
    ("skinny64-cipher.c", "skinny64_LFSR2", "k_lfsr2_64", XZ), ("skinny64-cipher.c", "skinny64_LFSR3", "k_lfsr3_64", XZ),
    ("mantis-cipher.c", "mantis_sbox", "k_mantis_sbox", FULL),
]
CELLS = [
    ("skinny128-cipher.c", "skinny128_permute_tk", "k_permute_tk128", Z), ("skinny64-cipher.c", "skinny64_permute_tk", "k_permute_tk64", Z),
    ("mantis-cipher.c", "mantis_update_tweak", "k_mantis_h", Z), ("mantis-cipher.c", "mantis_update_tweak_inverse", "k_mantis_h_inv", Z),
    ("mantis-cipher.c", "mantis_shift_rows", "k_mantis_P", Z), ("mantis-cipher.c", "mantis_shift_rows_inverse", "k_mantis_P_inv", Z),
    ("mantis-cipher.c", "mantis_mix_columns", "k_mantis_mix", XZ),
]
# round bodies: (file, function, name, binds, order of layers, [(spec, args)...], composition lemma)
ROUNDS = [
    ("skinny128-cipher.c", "skinny128_ecb_encrypt", "enc128_round",
     {"state": ("state", "Skinny128Cells_t"), "schedule": ("sched", "Skinny128HalfCells_t *")},
     "CL", [("k128_subcells", FULL), ("k128_enc_linear", XZO)], "k128_round_is_spec_bool"),
    ("skinny128-cipher.c", "skinny128_ecb_decrypt", "dec128_round",
     {"state": ("state", "Skinny128Cells_t"), "schedule": ("sched", "Skinny128HalfCells_t *")},
     "LC", [("k128_dec_linear", XZO), ("k128_subcells_inv", FULL)], "k128_round_inv_is_spec_bool"),
    ("skinny64-cipher.c", "skinny64_ecb_encrypt", "enc64_round",
     {"state": ("state", "Skinny64Cells_t"), "schedule": ("sched", "Skinny64HalfCells_t *")},
     "CL", [("k64_subcells", FULL), ("k64_enc_linear", XZO)], "k64_round_is_spec_bool"),
    ("skinny64-cipher.c", "skinny64_ecb_decrypt", "dec64_round",
     {"state": ("state", "Skinny64Cells_t"), "schedule": ("sched", "Skinny64HalfCells_t *")},
     "LC", [("k64_dec_linear", XZO), ("k64_subcells_inv", FULL)], "k64_round_inv_is_spec_bool"),
]

Z1 = ("poly pxor pzero pone", "bool xorb false true")
def tk_kernels():
    out = []
    for w, bs, ksz, slotoff in (("128", 16, 16, 8), ("64", 8, 8, 4)):
        f = "skinny%s-cipher.c" % w
        binds = {"tk": ("tk", "Skinny%sCells_t" % w), "ks": ("ks", "Skinny%sKey_t *" % w)}
        out.append((f, "skinny%s_xor_tk1" % w, 0, "xor_tk1_%s_body" % w, binds, {"index": (0, 32)}, None, {"ks": ksz}, "k%s_xor_tk1_body" % w, XZ))
        out.append((f, "skinny%s_set_tk2" % w, 1, "set_tk2_%s_body" % w, binds, {"index": (0, 32)}, None, {"ks": ksz}, "k%s_tk2_body" % w, XZ))
        out.append((f, "skinny%s_set_tk3" % w, 1, "set_tk3_%s_body" % w, binds, {"index": (0, 32)}, None, {"ks": ksz}, "k%s_tk3_body" % w, XZ))
        for tw in (0, 1):
            out.append((f, "skinny%s_set_tk1" % w, 1, "set_tk1_%s_body_t%d" % (w, tw), binds, {"index": (0, 32), "tweaked": (tw, 32)},
                        {"rc": ("rc", 8, False)}, {"ks": ksz}, "k%s_tk1_body" % w,
                        ("poly pxor pzero pone %s" % ("true" if tw else "false"), "bool xorb false true %s" % ("true" if tw else "false"))))
    return out
MANTIS_ROUNDS = [
    # (function, loop index, name, tweak variable, [(spec, args)] for the three segments)
    ("mantis_ecb_crypt", 0, "mantis_fwd", "tweak", [("km_h", Z), ("km_sub", FULL), ("km_fwd_linear", XZ)]),
    ("mantis_ecb_crypt", 1, "mantis_bwd", "tweak", [("km_bwd_linear", XZ), ("km_sub", FULL), ("km_h_inv", Z)]),
    ("mantis_ecb_crypt_tweaked", 0, "mantis_t_fwd", "tk", [("km_h", Z), ("km_sub", FULL), ("km_fwd_linear", XZ)]),
    ("mantis_ecb_crypt_tweaked", 1, "mantis_t_bwd", "tk", [("km_bwd_linear", XZ), ("km_sub", FULL), ("km_h_inv", Z)]),
]

VEC_FILES = [
    # (file, tag, lanes, vector type, encrypt function, decrypt function or None)
    ("skinny128-ctr-vec128.c", "v128ctr", 4, "SkinnyVector4x32_t", "skinny128_ecb_encrypt_four", None),
    ("skinny128-parallel-vec128.c", "v128par", 4, "SkinnyVector4x32_t", "_skinny128_parallel_encrypt_vec128", "_skinny128_parallel_decrypt_vec128"),
    ("skinny128-ctr-vec256.c", "v256ctr", 8, "SkinnyVector8x32_t", "skinny128_ecb_encrypt_eight", None),
    ("skinny128-parallel-vec256.c", "v256par", 8, "SkinnyVector8x32_t", "_skinny128_parallel_encrypt_vec256", "_skinny128_parallel_decrypt_vec256"),
]

def is_call_stmt(s):
    m = re.match(r"SStore (\d+) (\d+) (\d+) \(ECall \d+ \(ELoad (\d+) (\d+) (\d+)\)\)$", s)
    return bool(m) and m.group(1, 2, 3) == m.group(4, 5, 6)

def main():
    repo, outv, cfgname = sys.argv[1], sys.argv[2], sys.argv[3]
    flags = sys.argv[4:]
    part = os.environ.get("C2IR_PART", "all")          # scalar | v128ctr | v128par | v256ctr | v256par | all
    tus = {}
    def tu(f):
        if f not in tus: tus[f] = TU(repo, f, flags)
        return tus[f]
    out = ["(* GENERATED by translator/c2ir.py from %s/src (configuration %s: %s) — kernels of the current source as IR programs," % (repo, cfgname, " ".join(flags) or "default"),
           "   and the obligations that each equals its specification step for ALL inputs (reflective check + soundness theorem). *)",
           "From Coq Require Import List String Bool NArith Arith.",
           "From Skinny Require Import Bits SpecSkinny SpecMantis IR Anf IRCheck KernelSpecs KernelHom KernelSpecs2 KernelHom2 KernelSpecs3 KernelHom3.",
           "Import ListNotations.", "Open Scope string_scope.", ""]
    names = []
    def obligations(name, g, spec, args):
        sizes = "%s_sizes" % name
        return ["Theorem %s_wf : wf_prog %s %s = true. Proof. vm_compute. reflexivity. Qed." % (name, sizes, name),
                "Theorem %s_check : check_kernel (callf_spec poly pxor pand pzero pone) %s %s (%s %s) = true." % (name, sizes, name, spec, args[0]),
                "Proof. vm_compute. reflexivity. Qed.",
                "Theorem %s_correct : forall m : mem bool, shaped %s m ->" % (name, sizes),
                "  fst (execB (callf_spec bool xorb andb false true) %s (m, [])) = %s %s m." % (name, spec, args[1]),
                "Proof. exact (check_kernel_sound _ _ _ _ _ _ callf_spec_hom (%s_hom %s) %s_check). Qed."
                % (spec, "_ _" if spec in ("k128_tk1_body", "k64_tk1_body") else "_", name), ""]
    scalar = part in ("all", "scalar")
    for cfile, fn, spec, args in (PURE if scalar else []):
        g = kernel_pure(tu(cfile), fn, {})
        out.append(emit(g, fn)); out += obligations(fn, g, spec, args); names.append(fn)
    for cfile, fn, spec, args in (CELLS if scalar else []):
        g = kernel_cells(tu(cfile), fn, {})
        out.append(emit(g, fn)); out += obligations(fn, g, spec, args); names.append(fn)
    for cfile, fn, name, binds, order, specs, comp in (ROUNDS if scalar else []):
        g = kernel_loop(tu(cfile), fn, 0, binds, OPAQUE)
        flagsq = [is_call_stmt(s) for s in g.stmts]
        # the body must be one run of S-box calls and one run of other statements, in the expected order
        k = flagsq.index(order[1] == "C") if (order[1] == "C") in flagsq else len(flagsq)
        first, second = g.stmts[:k], g.stmts[k:]
        ok = all(is_call_stmt(s) == (order[0] == "C") for s in first) and all(is_call_stmt(s) == (order[1] == "C") for s in second) and first and second
        if not ok:
            raise Unsupported("%s: the loop body is not [%s] as expected (S-box calls must form one layer)" % (fn, order))
        out.append(emit(g, name))
        sizes = "%s_sizes" % name
        for i, (seg, (spec, args)) in enumerate(zip((first, second), specs)):
            sn = "%s_seg%d" % (name, i)
            out.append("Definition %s : list stmt := [\n  %s\n]." % (sn, ";\n  ".join(seg)))
            out.append("Theorem %s_check : check_kernel (callf_spec poly pxor pand pzero pone) %s %s (%s %s) = true." % (sn, sizes, sn, spec, args[0]))
            out.append("Proof. vm_compute. reflexivity. Qed.")
        s0, s1 = specs
        out += ["Theorem %s_split : %s = (%s_seg0 ++ %s_seg1)%%list. Proof. reflexivity. Qed." % (name, name, name, name),
                "Theorem %s_wf : wf_prog %s %s = true. Proof. vm_compute. reflexivity. Qed." % (name, sizes, name),
                "Theorem %s_closed : locals_closed %s_seg1 = true. Proof. vm_compute. reflexivity. Qed." % (name, name),
                "Theorem %s_bounds : stores_in_bounds %s %s_seg0 = true. Proof. vm_compute. reflexivity. Qed." % (name, sizes, name),
                "Theorem %s_correct : forall m : mem bool, shaped %s m ->" % (name, sizes),
                "  fst (execB (callf_spec bool xorb andb false true) %s (m, [])) = %s %s (%s %s m)." % (name, s1[0], s1[1][1], s0[0], s0[1][1]),
                "Proof.",
                "  intros m Hm. rewrite %s_split." % name,
                "  exact (check_two_segments _ _ _ _ _ _ _ _ _ callf_spec_hom (%s_hom _) (%s_hom _) %s_seg0_check %s_seg1_check %s_closed %s_bounds m Hm)."
                % (s0[0], s1[0], name, name, name, name),
                "Qed.", ""]
        names.append(name)
    # ---- key-schedule loop bodies
    for cfile, fn, nth, name, binds, consts, carried, sizes_o, spec, args in (tk_kernels() if scalar else []):
        g = kernel_loop(tu(cfile), fn, nth, binds, {}, consts, carried, sizes_o)
        out.append(emit(g, name)); out += obligations(name, g, spec, args); names.append(name)
    # ---- MANTIS forward / backward round bodies: three segments each
    for fn, nth, name, twv, specs in (MANTIS_ROUNDS if scalar else []):
        t = tu("mantis-cipher.c")
        rtype = None
        for n_ in (t.funcs[fn]["inner"][-1].get("inner") or []):
            if n_.get("kind") == "DeclStmt":
                for d in n_["inner"]:
                    if d.get("name") == "r": rtype = strip_q(d["type"]["qualType"])
        binds = {twv: ("tweak", "MantisCells_t"), "state": ("state", "MantisCells_t"), "r": ("rc", rtype), "k1": ("k1", "MantisCells_t")}
        g = kernel_loop(t, fn, nth, binds, OPAQUE, None, None, {"r": 8})
        runs = []
        for st in g.stmts:
            c = is_call_stmt(st)
            if runs and runs[-1][0] == c: runs[-1][1].append(st)
            else: runs.append((c, [st]))
        if [c for c, _ in runs] != [False, True, False]:
            raise Unsupported("%s loop %d: the body is not [linear; S-box layer; linear]" % (fn, nth))
        out.append(emit(g, name))
        sizes = "%s_sizes" % name
        for i, (c, seg) in enumerate(runs):
            out.append("Definition %s_seg%d : list stmt := [\n  %s\n]." % (name, i, ";\n  ".join(seg)))
        out.append("Definition %s_segs : list segment := [%s]." % (name, "; ".join(
            "mkSeg %s_seg%d (%s %s) (%s %s)" % (name, i, sp, a[0], sp, a[1]) for i, (sp, a) in enumerate(specs))))
        out += ["Theorem %s_check : check_segments_b (callf_spec poly pxor pand pzero pone) %s %s_segs = true." % (name, sizes, name),
                "Proof. vm_compute. reflexivity. Qed.",
                "Theorem %s_split : %s = segs_prog %s_segs. Proof. reflexivity. Qed." % (name, name, name),
                "Theorem %s_wf : wf_prog %s %s = true. Proof. vm_compute. reflexivity. Qed." % (name, sizes, name),
                "Theorem %s_correct : forall m : mem bool, shaped %s m ->" % (name, sizes),
                "  fst (execB (callf_spec bool xorb andb false true) %s (m, [])) = segs_specB %s_segs m." % (name, name),
                "Proof.",
                "  intros m Hm. rewrite %s_split." % name,
                "  apply (check_segments_b_sound (callf_spec poly pxor pand pzero pone) (callf_spec bool xorb andb false true) %s %s_segs callf_spec_hom); [ | exact %s_check | exact Hm]." % (sizes, name, name),
                "  " + "".join("constructor; [exact (%s_hom _) | " % sp for sp, _ in specs) + "constructor" + "]" * len(specs) + ".",
                "Qed.", ""]
        names.append(name)
    # ---- SIMD (row-sliced) SKINNY-128 kernels, when the configuration compiles them in
    simd = not any(f.startswith("-DSKINNY_C_VERIF_VEC128=0") for f in flags)
    for cfile, tag, lanes, vt, encf, decf in ([v for v in VEC_FILES if part in ("all", v[1])] if simd else []):
        t = tu(cfile)
        procs = [(nm, sp) for nm, sp in (("skinny128_sbox_four", "kv_sbox128"), ("skinny128_sbox_two", "kv_sbox128"),
                                         ("skinny128_inv_sbox_four", "kv_inv_sbox128"), ("skinny128_inv_sbox_two", "kv_inv_sbox128"))
                 if nm in t.funcs]
        used = set()
        def collect(n_):
            if n_.get("kind") == "DeclRefExpr" and n_.get("referencedDecl", {}).get("kind") == "FunctionDecl":
                used.add(n_["referencedDecl"]["name"])
            for c_ in n_.get("inner", []) or []:
                if c_: collect(c_)
        for fn_ in (encf, decf):
            if fn_ and fn_ in t.funcs: collect(t.funcs[fn_])
        for nm, sp in procs:
            if nm not in used: continue                     # e.g. sbox_two is dead code in the 64-bit configuration
            g = kernel_cells(t, nm, {})
            name = "%s_%s" % (tag, nm.replace("skinny128_", ""))
            out.append(emit(g, name)); out += obligations(name, g, sp, FULL); names.append(name)
        binds = {"row0": ("row0", vt), "row1": ("row1", vt), "row2": ("row2", vt), "row3": ("row3", vt),
                 "schedule": ("sched", "Skinny128HalfCells_t *")}
        for fn_, order, specs, suffix in ((encf, "CL", [("kv128_subcells", FULL), ("kv128_enc_linear", XZO)], "enc_round"),
                                          (decf, "LC", [("kv128_dec_linear", XZO), ("kv128_subcells_inv", FULL)], "dec_round")):
            if not fn_ or fn_ not in t.funcs: continue
            g = kernel_loop(t, fn_, 0, binds, OPAQUE)
            name = "%s_%s" % (tag, suffix)
            flagsq = [is_call_stmt(st) for st in g.stmts]
            k = flagsq.index(order[1] == "C") if (order[1] == "C") in flagsq else len(flagsq)
            first, second = g.stmts[:k], g.stmts[k:]
            ok = all(is_call_stmt(st) == (order[0] == "C") for st in first) and all(is_call_stmt(st) == (order[1] == "C") for st in second) and first and second
            if not ok:
                raise Unsupported("%s: the loop body is not [%s] as expected" % (fn_, order))
            out.append(emit(g, name))
            sizes = "%s_sizes" % name
            for i, (seg, (spec, args)) in enumerate(zip((first, second), specs)):
                out.append("Definition %s_seg%d : list stmt := [\n  %s\n]." % (name, i, ";\n  ".join(seg)))
                out.append("Theorem %s_seg%d_check : check_kernel (callf_spec poly pxor pand pzero pone) %s %s_seg%d (%s %s %d) = true."
                           % (name, i, sizes, name, i, spec, args[0], lanes))
                out.append("Proof. vm_compute. reflexivity. Qed.")
            s0, s1 = specs
            out += ["Theorem %s_split : %s = (%s_seg0 ++ %s_seg1)%%list. Proof. reflexivity. Qed." % (name, name, name, name),
                    "Theorem %s_wf : wf_prog %s %s = true. Proof. vm_compute. reflexivity. Qed." % (name, sizes, name),
                    "Theorem %s_closed : locals_closed %s_seg1 = true. Proof. vm_compute. reflexivity. Qed." % (name, name),
                    "Theorem %s_bounds : stores_in_bounds %s %s_seg0 = true. Proof. vm_compute. reflexivity. Qed." % (name, sizes, name),
                    "Theorem %s_correct : forall m : mem bool, shaped %s m ->" % (name, sizes),
                    "  fst (execB (callf_spec bool xorb andb false true) %s (m, [])) = %s %s %d (%s %s %d m)."
                    % (name, s1[0], s1[1][1], lanes, s0[0], s0[1][1], lanes),
                    "Proof.",
                    "  intros m Hm. rewrite %s_split." % name,
                    "  exact (check_two_segments _ _ _ _ _ _ _ _ _ callf_spec_hom (%s_hom %d _) (%s_hom %d _) %s_seg0_check %s_seg1_check %s_closed %s_bounds m Hm)."
                    % (s0[0], lanes, s1[0], lanes, name, name, name, name),
                    "Qed.", ""]
            names.append(name)
    out.append("Definition kernel_names : list string := [%s]." % "; ".join('"%s"' % n for n in names))
    for n in names:
        out.append("Print Assumptions %s_correct." % n)
    open(outv, "w").write("\n".join(out) + "\n")
    print("%s/%s: %d kernels" % (cfgname, part, len(names)))

if __name__ == "__main__":
    try:
        main()
    except Unsupported as e:
        sys.stderr.write("c2ir: unsupported construct: %s\n" % e); sys.exit(3)
