#!/usr/bin/env python3
"""taint.py <repo> [clang flags...] — source-level constant-time check of src/*.c for one build configuration, on clang's typed AST.
Everything loaded from memory is SECRET unless it is (a) one of the public struct fields below, (b) a file-scope const table,
or (c) a scalar local / parameter that only ever received public values.  Sinks (must be public): conditions of if / for / while /
do / ?:, operands of && and ||, array indices, pointer-arithmetic offsets, sizes passed to memcpy/memset/calloc, callees of
indirect calls, operands of / and %.  Interprocedural on by-value parameters and return values (fixpoint).  Prints one line per
violation `TAINT <file>:<line> <function>: <what>`; exit status 1 if any.  Not verified: a conservative static analysis."""
import json, os, re, subprocess, sys

PUBLIC_FIELDS = {"rounds", "offset", "vtable", "ctx", "base_ptr", "parallel_size",
                 "init", "cleanup", "set_key", "set_tweaked_key", "set_tweak", "set_counter", "encrypt", "decrypt", "crypt"}
PUBLIC_LOCALS = {"verif_regs"}          # CPUID results (CPU feature flags) inside the verification hook
SIZE_FUNCS = {"memcpy": [2], "memset": [2], "calloc": [0, 1], "skinny_calloc": [0], "skinny_cleanse": [1], "skinny_xor": [3]}

def line_of(n, cur=[0]):
    b = n.get("range", {}).get("begin", {})
    for k in ("line",):
        if k in b: cur[0] = b[k]
    sl = b.get("spellingLoc", {}); el = b.get("expansionLoc", {})
    return b.get("line") or el.get("line") or sl.get("line") or cur[0]

class Analysis:
    def __init__(self, repo, flags):
        self.funcs = {}; self.const_globals = set(); self.file_of = {}
        src = os.path.join(repo, "src")
        for f in sorted(os.listdir(src)):
            if not f.endswith(".c"): continue
            cmd = ["clang", "-fsyntax-only", "-Xclang", "-ast-dump=json", "-std=c99", "-msse2", "-mavx2",
                   "-I" + os.path.join(repo, "include"), "-I" + src] + flags + [os.path.join(src, f)]
            p = subprocess.run(cmd, capture_output=True, text=True)
            if p.returncode != 0:
                sys.stderr.write(p.stderr[-1500:]); sys.exit(3)
            cur = ""
            for n in json.loads(p.stdout).get("inner", []):
                loc = n.get("loc", {}); fn = loc.get("file") or loc.get("spellingLoc", {}).get("file") or loc.get("expansionLoc", {}).get("file")
                if fn: cur = fn
                if not cur.startswith(repo): continue
                if n.get("kind") == "FunctionDecl" and any(c.get("kind") == "CompoundStmt" for c in n.get("inner", [])):
                    key = n["name"] if n.get("storageClass") != "static" else f + ":" + n["name"]
                    self.funcs.setdefault(n["name"], []).append((f, n)); self.file_of[id(n)] = f
                if n.get("kind") == "VarDecl" and "const" in n["type"]["qualType"]:
                    self.const_globals.add(n["name"])
        self.param_taint = {}      # (file, fname) -> set of tainted by-value parameter names
        self.ret_taint = set()     # (file, fname) whose return value is tainted
        self.violations = []

    def resolve(self, f, name):
        c = self.funcs.get(name, [])
        for ff, n in c:
            if ff == f: return (ff, n)
        return c[0] if c else None

    def run(self):
        changed = True; rounds = 0
        while changed and rounds < 20:
            changed = False; rounds += 1
            self.violations = []
            for name, lst in self.funcs.items():
                for f, n in lst:
                    if self.analyse(f, n): changed = True
        return self.violations

    def analyse(self, f, fn):
        key = (f, fn["name"])
        tainted = set(self.param_taint.get(key, set()))
        body = [c for c in fn["inner"] if c.get("kind") == "CompoundStmt"][0]
        changed_global = False
        # local fixpoint on scalar variables
        for _ in range(10):
            before = len(tainted)
            self.walk(f, fn, body, tainted, report=False)
            if len(tainted) == before: break
        st = {"ret": False}
        self.walk(f, fn, body, tainted, report=True, st=st)
        if st["ret"] and key not in self.ret_taint:
            self.ret_taint.add(key); changed_global = True
        if self._pt_changed:
            changed_global = True
        return changed_global

    _pt_changed = False
    def is_tainted(self, f, e, tainted):
        k = e.get("kind")
        if k in ("IntegerLiteral", "CharacterLiteral", "UnaryExprOrTypeTraitExpr", "StringLiteral", "FloatingLiteral"): return False
        if k == "DeclRefExpr":
            d = e.get("referencedDecl", {})
            return d.get("name") in tainted and d.get("kind") in ("VarDecl", "ParmVarDecl")
        if k == "ImplicitCastExpr" and e.get("castKind") == "LValueToRValue":
            return self.load_is_secret(f, e["inner"][0], tainted)
        if k == "ImplicitCastExpr" and e.get("castKind") in ("ArrayToPointerDecay", "FunctionToPointerDecay"):
            return False                                                 # an address, not data
        if k == "UnaryOperator" and e.get("opcode") == "&": return False
        if k == "CallExpr":
            callee = e["inner"][0]
            while callee.get("kind") in ("ImplicitCastExpr", "ParenExpr"): callee = callee["inner"][0]
            args = e["inner"][1:]
            anyt = any(self.is_tainted(f, a, tainted) for a in args)
            if callee.get("kind") == "DeclRefExpr":
                r = self.resolve(f, callee["referencedDecl"]["name"])
                if r and (r[0], r[1]["name"]) in self.ret_taint: return True
                if r is None: return anyt
                return anyt and (r[0], r[1]["name"]) in self.ret_taint
            return anyt
        if k == "UnaryOperator" and e.get("opcode") == "*" and "(" in e.get("type", {}).get("qualType", ""):
            return self.is_tainted(f, e["inner"][0], tainted)            # *(function pointer): the pointer's own taint
        if k in ("MemberExpr", "ArraySubscriptExpr") or (k == "UnaryOperator" and e.get("opcode") == "*"):
            return self.load_is_secret(f, e, tainted)                    # (used as rvalue inside e.g. vector element access)
        return any(self.is_tainted(f, c, tainted) for c in e.get("inner", []) or [] if isinstance(c, dict) and c)

    def load_is_secret(self, f, lv, tainted):
        k = lv.get("kind")
        if k == "ParenExpr": return self.load_is_secret(f, lv["inner"][0], tainted)
        if k == "DeclRefExpr":
            d = lv.get("referencedDecl", {})
            if d.get("name") in self.const_globals: return False
            t = d.get("type", {}).get("qualType", "")
            if "*" in t: return False                                    # a pointer variable: public
            if "[" in t or "Cells_t" in t or "Vector" in t or "Key_t" in t:
                return d.get("name") not in getattr(self, "public_arrays", set())   # local aggregates hold secret data
            return d.get("name") in tainted
        if k == "MemberExpr":
            if lv.get("name") in PUBLIC_FIELDS: return False
            return True
        if k == "ArraySubscriptExpr":
            base = lv["inner"][0]
            while base.get("kind") in ("ImplicitCastExpr", "ParenExpr"): base = base["inner"][0]
            if base.get("kind") == "DeclRefExpr" and base["referencedDecl"]["name"] in self.const_globals: return False
            if base.get("kind") == "DeclRefExpr" and base["referencedDecl"]["name"] in PUBLIC_LOCALS: return False
            if base.get("kind") == "ArraySubscriptExpr":
                b2 = base["inner"][0]
                while b2.get("kind") in ("ImplicitCastExpr", "ParenExpr"): b2 = b2["inner"][0]
                if b2.get("kind") == "DeclRefExpr" and b2["referencedDecl"]["name"] in self.const_globals: return False
            return True
        return True

    def sink(self, f, fn, e, tainted, what, report):
        if report and self.is_tainted(f, e, tainted):
            self.violations.append("TAINT %s:%s %s: %s depends on secret data" % (f, line_of(e), fn["name"], what))

    def walk(self, f, fn, n, tainted, report, st=None):
        self._pt_changed = getattr(self, "_pt_changed", False) if report else False
        k = n.get("kind")
        inner = [c for c in (n.get("inner") or []) if isinstance(c, dict) and c]
        if k == "IfStmt": self.sink(f, fn, inner[0], tainted, "if condition", report)
        elif k == "WhileStmt": self.sink(f, fn, inner[0], tainted, "while condition", report)
        elif k == "DoStmt": self.sink(f, fn, inner[-1], tainted, "do-while condition", report)
        elif k == "ForStmt":
            full = n.get("inner") or []
            if len(full) >= 3 and isinstance(full[2], dict) and full[2]: self.sink(f, fn, full[2], tainted, "for condition", report)
        elif k == "ConditionalOperator": self.sink(f, fn, inner[0], tainted, "?: condition", report)
        elif k == "SwitchStmt": self.sink(f, fn, inner[0], tainted, "switch value", report)
        elif k == "BinaryOperator" and n.get("opcode") in ("&&", "||"):
            self.sink(f, fn, inner[0], tainted, "operand of %s" % n["opcode"], report); self.sink(f, fn, inner[1], tainted, "operand of %s" % n["opcode"], report)
        elif k == "BinaryOperator" and n.get("opcode") in ("/", "%"):
            self.sink(f, fn, inner[0], tainted, "operand of %s" % n["opcode"], report); self.sink(f, fn, inner[1], tainted, "operand of %s" % n["opcode"], report)
        elif k == "ArraySubscriptExpr":
            self.sink(f, fn, inner[1], tainted, "array index", report)
        elif k == "BinaryOperator" and n.get("opcode") in ("+", "-") and "*" in n.get("type", {}).get("qualType", ""):
            for c in inner:
                if "*" not in c.get("type", {}).get("qualType", ""): self.sink(f, fn, c, tainted, "pointer offset", report)
        elif k == "CompoundAssignOperator" and n.get("opcode") in ("+=", "-=") and "*" in n.get("type", {}).get("qualType", ""):
            self.sink(f, fn, inner[1], tainted, "pointer offset", report)
        elif k == "CallExpr":
            callee = inner[0]
            while callee.get("kind") in ("ImplicitCastExpr", "ParenExpr"): callee = callee["inner"][0]
            args = inner[1:]
            if callee.get("kind") == "DeclRefExpr":
                cname = callee["referencedDecl"]["name"]
                for i in SIZE_FUNCS.get(cname, []):
                    if i < len(args): self.sink(f, fn, args[i], tainted, "size argument of %s" % cname, report)
                r = self.resolve(f, cname)
                if r:
                    params = [c for c in r[1]["inner"] if c.get("kind") == "ParmVarDecl"]
                    for p, a in zip(params, args):
                        if "*" not in p["type"]["qualType"] and self.is_tainted(f, a, tainted):
                            s = self.param_taint.setdefault((r[0], r[1]["name"]), set())
                            if p["name"] not in s: s.add(p["name"]); self._pt_changed = True
            else:
                self.sink(f, fn, callee, tainted, "callee of an indirect call", report)
        # assignments to scalar locals propagate taint
        if k in ("BinaryOperator", "CompoundAssignOperator") and (n.get("opcode") == "=" or k == "CompoundAssignOperator"):
            lhs = inner[0]
            while lhs.get("kind") == "ParenExpr": lhs = lhs["inner"][0]
            if lhs.get("kind") == "DeclRefExpr" and self.is_tainted(f, inner[1], tainted):
                tainted.add(lhs["referencedDecl"]["name"])
        if k == "VarDecl" and inner and "*" not in n["type"]["qualType"] and self.is_tainted(f, inner[-1], tainted):
            tainted.add(n["name"])
        if k == "ReturnStmt" and inner and st is not None and self.is_tainted(f, inner[0], tainted):
            st["ret"] = True
        for c in inner:
            self.walk(f, fn, c, tainted, report, st)

def main():
    repo = sys.argv[1]; flags = sys.argv[2:]
    a = Analysis(repo, flags)
    v = sorted(set(a.run()))
    for l in v: print(l)
    print("functions analysed: %d; sinks with secret dependence: %d" % (sum(len(x) for x in a.funcs.values()), len(v)))
    sys.exit(1 if v else 0)
main()
