#!/usr/bin/env python3
"""evalref.py <worktree> <props comma separated> — every deliver/change*.diff in the worktree is a behaviour-PRESERVING change:
run the given checks (quick) against a scratch copy with the change applied and report any alarm (a false alarm)."""
import glob, json, os, re, subprocess, sys, tempfile, shutil
from concurrent.futures import ThreadPoolExecutor
VERIF = os.path.dirname(os.path.dirname(os.path.abspath(__file__)))
wt, props = sys.argv[1], sys.argv[2].split(",")
def sh(cmd, cwd=None, env=None, timeout=5400):
    p = subprocess.run(cmd, shell=True, cwd=cwd, capture_output=True, text=True, timeout=timeout, env=env)
    return p.returncode, p.stdout + p.stderr
jobs = []
for diff in sorted(glob.glob(wt + "/deliver/change*.diff")):
    i = int(re.search(r"change(\d+)", diff).group(1))
    snap = tempfile.mkdtemp(prefix="refrepo_", dir="/var/tmp")
    sh("git ls-files -z | xargs -0 cp --parents -t %s" % snap, cwd=wt)
    rc, out = sh("git apply %s" % diff, cwd=snap) if os.path.isdir(snap + "/.git") else sh("patch -s -p1 < %s" % diff, cwd=snap)
    for p in props: jobs.append((i, p, snap))
def run(job):
    i, p, snap = job
    sc = tempfile.mkdtemp(prefix="refev_", dir="/var/tmp")
    env = dict(os.environ, SKINNY_REPO=snap, SKV_EVIDENCE_DIR=sc + "/e", SKV_REPLAY_DIR=sc + "/r")
    rc, out = sh("./check %s --tier quick" % p, cwd=VERIF, env=env)
    v = [l for l in out.splitlines() if l.startswith("VIOLATION")]
    what = ""
    for l in v[:2]:
        m = re.search(r"replay=(\S+)", l)
        if m and os.path.exists(m.group(1)):
            try: what += json.load(open(m.group(1))).get("what", "")[:300] + " || "
            except Exception: pass
    shutil.rmtree(sc, ignore_errors=True)
    return (i, p, rc, len(v), what)
with ThreadPoolExecutor(max_workers=int(os.environ.get("REF_PAR", "3"))) as ex:
    for r in ex.map(run, jobs):
        print(os.path.basename(wt), "change", r[0], r[1], "ok" if r[2] == 0 else "ALARM rc=%s violations=%d %s" % (r[2], r[3], r[4])); sys.stdout.flush()
for s in set(j[2] for j in jobs): shutil.rmtree(s, ignore_errors=True)
