#!/usr/bin/env python3
"""evalmut2.py <Cnn> [<Cnn> ...] — for every /tmp/mut_<Cnn>/deliver/change<i>.diff:
 (a) confirm in the scratch worktree /tmp/mut_<Cnn> that the change compiles, the 30 tests pass, the demo fails with it and
     passes without;
 (b) copy the patched tree to a scratch directory and run ./check <Cnn> --tier quick against it (SKINNY_REPO), with the
     evidence and replay directories redirected, so neither /repo nor /verif/evidence is touched.
 Results: /tmp/mut_results/<Cnn>.json.  Extra properties to run for a change: EXTRA_<Cnn>=C12,C08 in the environment."""
import glob, json, os, re, subprocess, sys, shutil, tempfile
from concurrent.futures import ThreadPoolExecutor
VERIF = os.path.dirname(os.path.dirname(os.path.abspath(__file__)))
OUT = "/tmp/mut_results"; os.makedirs(OUT, exist_ok=True)

def sh(cmd, cwd=None, timeout=3600, env=None):
    p = subprocess.run(cmd, shell=True, cwd=cwd, capture_output=True, text=True, timeout=timeout, env=env)
    return p.returncode, p.stdout + p.stderr

def build_demo(wt, i):
    src = [f for f in glob.glob("%s/deliver/demo%d.*" % (wt, i)) if os.path.splitext(f)[1] in (".c", ".cpp", ".sh")]
    if not src: return None
    src.sort(key=lambda f: 0 if f.endswith(".sh") else 1)
    s = src[0]
    if s.endswith(".sh"): return "sh " + s
    head = open(s).read()[:4000]
    extra = " " + " ".join(re.findall(r"-Wl,--wrap=\w+", head))
    if "pthread" in head: extra += " -lpthread"
    if s.endswith(".cpp"):
        cmd = "g++ -Iarduino/libraries/Skinny -Iinclude -Isrc %s src/libskinny.a arduino/libraries/Skinny/*.cpp -o deliver/demo%d.bin%s" % (s, i, extra)
    else:
        cmd = "gcc -Iinclude -Isrc %s src/libskinny.a -o deliver/demo%d.bin%s" % (s, i, extra)
    rc, out = sh(cmd, cwd=wt)
    if rc != 0: return "BUILDFAIL " + out[-300:]
    return "./deliver/demo%d.bin" % i

def verify(pid):
    wt = "/tmp/mut_%s" % pid
    res = []
    for diff in sorted(glob.glob("%s/deliver/change*.diff" % wt)):
        i = int(re.search(r"change(\d+)", diff).group(1))
        r = {"prop": pid, "change": i, "diff": diff}
        sh("git checkout -- . && git clean -fdq -e deliver", cwd=wt)
        rc, out = sh("git apply %s" % diff, cwd=wt)
        if rc != 0: r["verify"] = "patch does not apply"; res.append(r); continue
        rc, out = sh("make clean all check 2>&1", cwd=wt)
        r["tests_ok"] = out.count(": ok"); r["compiled"] = rc == 0
        d = build_demo(wt, i)
        r["demo_with_change"] = sh(d, cwd=wt, timeout=600)[0] if d and not d.startswith("BUILDFAIL") else d
        # snapshot of the patched tree for the checks
        snap = tempfile.mkdtemp(prefix="mutrepo_%s_%d_" % (pid, i), dir="/var/tmp")
        sh("make clean >/dev/null 2>&1; git ls-files -z | xargs -0 cp --parents -t %s" % snap, cwd=wt)
        r["snap"] = snap
        sh("git checkout -- . && git clean -fdq -e deliver", cwd=wt)
        sh("make clean all 2>&1", cwd=wt)
        d = build_demo(wt, i)
        r["demo_pristine"] = sh(d, cwd=wt, timeout=600)[0] if d and not d.startswith("BUILDFAIL") else d
        sh("make clean >/dev/null 2>&1; git clean -fdq -e deliver", cwd=wt)
        r["confirmed"] = bool(r["compiled"] and r["tests_ok"] == 30 and r["demo_with_change"] not in (0, None) and not str(r["demo_with_change"]).startswith("BUILDFAIL") and r["demo_pristine"] == 0)
        res.append(r)
    return res

def detect(r):
    if "snap" not in r: return r
    pid = r["prop"]; props = [pid] + [p for p in os.environ.get("EXTRA_%s" % pid, "").split(",") if p]
    tier = os.environ.get("MUT_TIER", "quick")
    scratch = tempfile.mkdtemp(prefix="mutev_", dir="/var/tmp")
    env = dict(os.environ, SKINNY_REPO=r["snap"], SKV_EVIDENCE_DIR=scratch + "/evidence", SKV_REPLAY_DIR=scratch + "/replays")
    det = {}
    for p in props:
        try:
            rc, out = sh("./check %s --tier %s" % (p, tier), cwd=VERIF, timeout=5400, env=env)
        except subprocess.TimeoutExpired:
            det[p] = {"rc": "timeout"}; continue
        v = [l for l in out.splitlines() if l.startswith("VIOLATION")]
        det[p] = {"rc": rc, "violations": len(v), "first": (v[0] if v else ""), "tail": (out.strip().splitlines() or [""])[-1][:200]}
        for l in v[:1]:
            m = re.search(r"replay=(\S+)", l)
            if m and os.path.exists(m.group(1)):
                try:
                    dd = json.load(open(m.group(1))); det[p]["what"] = (dd.get("what", "") + " | " + str(dd.get("detail", ""))[:300])[:500]
                except Exception: pass
    r["detect"] = det
    r["caught"] = any(d.get("rc") == 1 and d.get("violations") for d in det.values())
    shutil.rmtree(scratch, ignore_errors=True); shutil.rmtree(r["snap"], ignore_errors=True); del r["snap"]
    return r

if __name__ == "__main__":
    pids = sys.argv[1:]
    allr = []
    for pid in pids: allr += verify(pid)
    with ThreadPoolExecutor(max_workers=int(os.environ.get("MUT_PAR", "3"))) as ex:
        allr = list(ex.map(detect, allr))
    for pid in pids:
        json.dump([r for r in allr if r["prop"] == pid], open("%s/%s.json" % (OUT, pid), "w"), indent=1)
    for r in allr:
        print(r["prop"], r["change"], "confirmed" if r.get("confirmed") else "NOT-CONFIRMED", "CAUGHT" if r.get("caught") else "MISSED",
              {p: (d.get("rc"), d.get("violations")) for p, d in r.get("detect", {}).items()})
