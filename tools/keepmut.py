#!/usr/bin/env python3
"""keepmut.py <Cnn> <caught-by json string> — copy confirmed seeded changes from /tmp/mut_<Cnn>/deliver into /verif/seeded/."""
import glob, json, os, re, shutil, sys
pid = sys.argv[1]; caught = json.loads(sys.argv[2]) if len(sys.argv) > 2 else {}
src = "/tmp/mut_%s/deliver" % pid
for diff in sorted(glob.glob(src + "/change*.diff")):
    i = re.search(r"change(\d+)", diff).group(1)
    d = "/verif/seeded/%s-%s" % (pid, i)
    os.makedirs(d, exist_ok=True)
    shutil.copy(diff, d + "/patch.diff")
    for f in glob.glob(src + "/demo%s.*" % i):
        if not f.endswith(".bin"):
            shutil.copy(f, d)
    notes = open(src + "/notes%s.txt" % i).read() if os.path.exists(src + "/notes%s.txt" % i) else ""
    meta = {"property": pid, "needs": notes.strip()[:1500],
            "confirmed": "tools/evalmut.py: patch applied in a scratch worktree, `make clean all check` printed 30 ok, the demonstration "
                         "exited non-zero with the change and 0 without it; then applied to /repo, checks run, reverted",
            "caught_by": caught.get(i, caught.get("*", ""))}
    json.dump(meta, open(d + "/meta.json", "w"), indent=1)
print("kept", pid)
