#!/usr/bin/env python3
"""evalseeded.py [<id> ...] — regression run of the kept seeded changes: for every /verif/seeded/<Cnn-i>/patch.diff (or the ids
given) the patch is applied to a scratch copy of /repo's tracked files and `./check Cnn --tier quick` is run against that copy
(SKINNY_REPO), evidence and replays redirected; /repo and /verif/evidence are not touched.  Results: /tmp/seeded_results.json
and one line per change (CAUGHT = exit 1 with at least one VIOLATION line)."""
import glob, json, os, re, shutil, subprocess, sys, tempfile
from concurrent.futures import ThreadPoolExecutor
VERIF = os.path.dirname(os.path.dirname(os.path.abspath(__file__)))

def sh(cmd, cwd=None, timeout=5400, env=None):
    p = subprocess.run(cmd, shell=True, cwd=cwd, capture_output=True, text=True, timeout=timeout, env=env)
    return p.returncode, p.stdout + p.stderr

def run(sid):
    prop = sid.split("-")[0]
    snap = tempfile.mkdtemp(prefix="seedrepo_%s_" % sid, dir="/var/tmp")
    scratch = tempfile.mkdtemp(prefix="seedev_", dir="/var/tmp")
    r = {"id": sid}
    try:
        sh("git ls-files -z | xargs -0 cp --parents -t %s" % snap, cwd="/repo")
        rc, out = sh("patch -p1 -s < %s/seeded/%s/patch.diff" % (VERIF, sid), cwd=snap)
        if rc != 0:
            r["result"] = "PATCH-FAILED"; return r
        env = dict(os.environ, SKINNY_REPO=snap, SKV_EVIDENCE_DIR=scratch + "/evidence", SKV_REPLAY_DIR=scratch + "/replays")
        try:
            rc, out = sh("./check %s --tier quick" % prop, cwd=VERIF, env=env)
        except subprocess.TimeoutExpired:
            r["result"] = "TIMEOUT"; return r
        v = [l for l in out.splitlines() if l.startswith("VIOLATION")]
        r.update(rc=rc, violations=len(v), tail=(out.strip().splitlines() or [""])[-1][:200])
        kinds = set()
        for l in v:
            m = re.search(r"replay=(\S+)", l)
            if m and os.path.exists(m.group(1)):
                try: kinds.add(json.load(open(m.group(1))).get("kind", "?"))
                except Exception: pass
        r["kinds"] = sorted(kinds)
        r["result"] = "CAUGHT" if rc == 1 and v else ("MISSED" if rc == 0 else "ERROR")
        return r
    finally:
        shutil.rmtree(snap, ignore_errors=True); shutil.rmtree(scratch, ignore_errors=True)

if __name__ == "__main__":
    ids = sys.argv[1:] or sorted(os.path.basename(d) for d in glob.glob(VERIF + "/seeded/C*-*"))
    with ThreadPoolExecutor(max_workers=int(os.environ.get("MUT_PAR", "4"))) as ex:
        res = []
        for r in ex.map(run, ids):
            res.append(r); print(r["id"], r["result"], r.get("violations"), ",".join(r.get("kinds", [])), flush=True)
            json.dump(res, open("/tmp/seeded_results.json", "w"), indent=1)
    bad = [r for r in res if r["result"] != "CAUGHT"]
    print("%d changes, %d caught, not caught: %s" % (len(res), len(res) - len(bad), [(r["id"], r["result"]) for r in bad]))
