#!/bin/sh
# Independent re-check (coqchk) of every compiled property file and everything it depends on; prints the axioms they rely on.
# Not part of the registered check commands (1-2 min); run after ./setup.sh.  Last result is quoted in DESIGN.md section 7.
cd "$(dirname "$0")/../coq" || exit 1
mods=""
for i in 01 02 03 04 05 06 07 08 09 10 11 12 13 14 15 16 17 18 19 20; do mods="$mods Skinny.Properties_C$i"; done
exec coqchk -o -silent -Q . Skinny $mods
