# plan of the property files (executed by mkprops.py)
SK = "ProofsSkinny.v"; MA = "ProofsMantis.v"; CT = "ProofsCtr.v"; CP = "ProofsCpu.v"; AC = "ProofsApiCtr.v"
API = ["Api", "ProofsSkinny", "ProofsMantis", "ProofsCtr", "ProofsApiCtr"]
BASE = ["Bits", "SpecSkinny", "SpecMantis", "ModelCipher", "ModelCtr", "ModelCpu"]

prop("C01", "SKINNY block encryption/decryption conform to the specification",
     BASE + ["ProofsSkinny"],
     [(SK, "m128_set_key_spec"), (SK, "m64_set_key_spec"),
      (SK, "skinny128_dec_enc"), (SK, "skinny128_enc_dec"), (SK, "skinny64_dec_enc"), (SK, "skinny64_enc_dec"),
      (SK, "S8_inv_l"), (SK, "S8_inv_r"), (SK, "S4_inv_l"), (SK, "S4_inv_r")])

prop("C02", "MANTIS-5..8 conform to the specification",
     BASE + ["ProofsMantis"],
     [(MA, "mantis_model_spec"), (MA, "mantis_dec_enc"), (MA, "mantis_enc_dec"), (MA, "mantis_core_inverse"),
      (MA, "Sb0_involutive")])

prop("C04", "tweakable SKINNY depends only on key and latest tweak",
     BASE + ["ProofsSkinny"],
     [(SK, "c04_tweak_history128"), (SK, "c04_tweak_history64"), (SK, "m128_set_tweak_reject"), (SK, "m64_set_tweak_reject"),
      (SK, "skinny128_tweaked_dec_enc"), (SK, "skinny128_tweaked_enc_dec"),
      (SK, "skinny64_tweaked_dec_enc"), (SK, "skinny64_tweaked_enc_dec")])

prop("C10", "key lengths: documented range accepted and zero-padded, others rejected",
     BASE + ["ProofsSkinny", "ProofsMantis"],
     [(SK, "m128_set_key_padding"), (SK, "m128_set_key_reject"), (SK, "m128_set_tweaked_key_padding"),
      (SK, "m128_set_tweaked_key_reject"), (SK, "m64_set_key_padding"), (SK, "m64_set_key_reject"),
      (SK, "m64_set_tweaked_key_padding"), (SK, "m64_set_tweaked_key_reject"),
      (MA, "mantis_set_key_reject"), (MA, "mantis_set_tweak_reject")])

prop("C13", "back-end selection is deterministic, accurate and never exceeds the CPU",
     ["ModelCpu", "ProofsCpu"],
     [(CP, "select_is_widest"), (CP, "select_ignores_ambient"), (CP, "probes_ignore_ambient"),
      (CP, "select_v256_usable"), (CP, "select_v128_usable"),
      (CP, "probe256_orig_ambient_refuted"), (CP, "probe256_orig_unsafe_refuted")])

# theorems generalised by a Section: statements as `Check` prints them
hand("ctr_refinement", """: forall (K : Type) (E : K -> list byte -> list byte) (bs B : nat),
  0 < bs -> 0 < B -> (forall (k : K) (blk : list byte), length (E k blk) = bs) ->
  forall (st : ctr K) (c0 : list byte) (calls : list (list byte)),
  fresh_at K bs B st c0 ->
  exists (st' : ctr K) (outs : list (list byte)),
    run_calls K E bs B st calls = Some (st', outs) /\\
    concat outs = ctr_xor bs (E (c_key st)) c0 0 (concat calls) /\\
    map (@length byte) outs = map (@length byte) calls /\\ c_key st' = c_key st""")
hand("set_counter_fresh", """: forall (K : Type) (E : K -> list byte -> list byte) (bs B : nat),
  0 < bs -> 0 < B -> (forall (k : K) (blk : list byte), length (E k blk) = bs) ->
  forall (st : ctr K) (cnt : option (list byte)) (size : N),
  (size <= N.of_nat bs)%N ->
  let blk := match cnt with
             | Some b => zeros (bs - N.to_nat size) ++ pad_to (N.to_nat size) b
             | None => zeros bs
             end in
  set_counter K bs B st cnt size = (1%N, snd (set_counter K bs B st cnt size)) /\\
  fresh_at K bs B (snd (set_counter K bs B st cnt size)) blk /\\
  c_key (snd (set_counter K bs B st cnt size)) = c_key st""")
hand("set_counter_reject", """: forall (K : Type) (bs B : nat), 0 < bs -> 0 < B ->
  forall (st : ctr K) (cnt : buf) (size : N),
  (N.of_nat bs < size)%N -> set_counter K bs B st cnt size = (0%N, st)""")
hand("rekey_restarts", """: forall (K : Type) (E : K -> list byte -> list byte) (bs B : nat),
  0 < bs -> 0 < B -> (forall (k : K) (blk : list byte), length (E k blk) = bs) ->
  forall (st : ctr K) (c0 : list byte) (calls : list (list byte)) (st' : ctr K)
    (outs : list (list byte)) (k' : K),
  fresh_at K bs B st c0 ->
  run_calls K E bs B st calls = Some (st', outs) ->
  fresh_at K bs B (reset_stream K bs B (with_key K st' k'))
    (ctr_add c0 (N.of_nat (B * ((length (concat calls) + B * bs - 1) / (B * bs)))))""")
hand("ctr_split_independent", """: forall (K : Type) (E : K -> list byte -> list byte) (bs B : nat),
  0 < bs -> 0 < B -> (forall (k : K) (blk : list byte), length (E k blk) = bs) ->
  forall (st : ctr K) (c0 : list byte) (calls1 calls2 : list (list byte)),
  fresh_at K bs B st c0 -> concat calls1 = concat calls2 ->
  forall (s1 : ctr K) (o1 : list (list byte)) (s2 : ctr K) (o2 : list (list byte)),
  run_calls K E bs B st calls1 = Some (s1, o1) ->
  run_calls K E bs B st calls2 = Some (s2, o2) -> concat o1 = concat o2""")
hand("ctr_involution", """: forall bs : nat, 0 < bs ->
  forall (Eb : list byte -> list byte) (c0 data : list byte),
  (forall b : list byte, length (Eb b) = bs) -> ctr_xor bs Eb c0 0 (ctr_xor bs Eb c0 0 data) = data""")
hand("counter_block_value", """: forall (bs : nat) (b : list byte) (n : nat),
  length b = n -> n <= bs -> be_value (zeros (bs - n) ++ b) = be_value b""")

prop("C05", "CTR output = input xor E(c),E(c+1),... however the calls split the data",
     BASE + API,
     [(AC, "api_ctr128_stream"), (AC, "api_ctr64_stream"), (AC, "api_mctr_stream"), (CT, "ctr_refinement"), (CT, "set_counter_fresh"), (CT, "set_counter_reject"), (CT, "counter_block_value"),
      (CT, "ctr_split_independent"), (CT, "ctr_involution"),
      (CT, "inc_counter_is_add"), (CT, "inc_counter_value"), (CT, "be_value_be_bytes"), (CT, "be_bytes_be_value"),
      (CT, "ctr_add_add"), (CT, "ctr_add_0"), (CT, "ctr_add_length")])

prop("C07", "parallel ECB equals block-by-block ECB for every block count",
     BASE + API,
     [(AC, "api_par128_enc"), (AC, "api_par128_dec"), (AC, "api_par64_enc"), (AC, "api_par64_dec"), (AC, "api_mpar_crypt"),
      (CT, "par_crypt_spec"), (CT, "par_crypt_indep"), (CT, "blocks_concat"), (CT, "blocks_length")])

prop("C03", "decryption inverts encryption through every entry point",
     BASE + API,
     [(AC, "m128_keyed_roundtrip"), (AC, "m64_keyed_roundtrip"), (AC, "par128_roundtrip"), (AC, "par64_roundtrip"),
      (AC, "mpar_roundtrip"),
      (SK, "skinny128_dec_enc"), (SK, "skinny128_enc_dec"), (SK, "skinny64_dec_enc"), (SK, "skinny64_enc_dec"),
      (SK, "skinny128_tweaked_dec_enc"), (SK, "skinny128_tweaked_enc_dec"),
      (SK, "skinny64_tweaked_dec_enc"), (SK, "skinny64_tweaked_enc_dec"),
      (MA, "mantis_dec_enc"), (MA, "mantis_enc_dec"),
      (MA, "swap_swap"), (MA, "crypt_swap_inverse"), (MA, "crypt_tweaked_swap_inverse"),
      (MA, "swap_is_rekey"), (MA, "swap_tweak_history"), (CT, "par_crypt_spec")])

prop("C06", "generic and SIMD back ends are observably identical",
     BASE + API,
     [(AC, "api_ctr128_backend_independent"), (AC, "api_ctr64_backend_independent"), (AC, "api_mctr_backend_independent"),
      (AC, "api_par128_enc"), (AC, "api_par128_dec"), (AC, "api_par64_enc"), (AC, "api_par64_dec"), (AC, "api_mpar_crypt"),
      (CT, "par_crypt_indep"), (CT, "rekey_restarts"), (AC, "c06_unrestricted_refuted"), (AC, "c06_backends")])

AH = "ProofsApiHeap.v"; JK = "ProofsJunk.v"
prop("C11", "results are a function of API inputs only",
     BASE + API + ["ProofsJunk"],
     [(JK, "m128_prior_content_irrelevant"), (JK, "m64_prior_content_irrelevant"), (JK, "mantis_prior_content_irrelevant"),
      (JK, "ctr_init_prior_content_irrelevant"), (JK, "m128_keyed_is_spec"), (JK, "m64_keyed_is_spec"),
      (SK, "m128_set_key_padding"), (SK, "m64_set_key_padding")])

prop("C15", "object life cycle: init/cleanup in any order is safe, leak-free, idempotent",
     BASE + ["Api", "ProofsApiHeap"],
     [(AH, "heapinv_init"), (AH, "heapinv_step"), (AH, "heapinv_run"), (AH, "free_is_of_owned_live_block"),
      (AH, "cleanup_inert_noop"), (AH, "cleanup_releases"), (AH, "no_leak"), (AH, "no_leak_run"),
      (AH, "reinit_after_cleanup"), (AH, "inert_object_rejects")])

prop("C16", "allocation failure during initialisation is reported cleanly",
     BASE + ["Api", "ProofsApiHeap"],
     [(AH, "init_alloc_failure"), (AH, "inert_object_rejects"), (AH, "cleanup_inert_noop"), (AH, "reinit_after_cleanup")])

prop("C17", "cleanup erases all key-dependent state before releasing it",
     BASE + ["Api", "ProofsApiHeap"],
     [(AH, "every_free_is_wiped"), (AH, "free_is_of_owned_live_block"), (AH, "cleanup_releases")])

prop("C09", "buffer contract: exact extents, any alignment, documented overlap",
     BASE + API,
     [(AC, "m128_encrypt_length"), (AC, "m128_decrypt_length"), (AC, "m64_encrypt_length"), (AC, "m64_decrypt_length"),
      (AC, "mantis_crypt_length"), (AC, "mantis_crypt_tweaked_length"),
      (AC, "api_ctr128_stream"), (AC, "api_ctr64_stream"), (AC, "api_mctr_stream"),
      (AC, "api_par128_enc"), (AC, "api_par128_dec"), (AC, "api_par64_enc"), (AC, "api_par64_dec"), (AC, "api_mpar_crypt")])

prop("C12", "build-configuration independence: every compile-time path computes the same",
     BASE + API + ["ProofsJunk"],
     [(SK, "m128_set_key_spec"), (SK, "m64_set_key_spec"), (MA, "mantis_model_spec"),
      (SK, "c04_tweak_history128"), (SK, "c04_tweak_history64"),
      (AC, "api_ctr128_stream"), (AC, "api_ctr64_stream"), (AC, "api_mctr_stream"),
      (AC, "api_par128_enc"), (AC, "api_par128_dec"), (AC, "api_par64_enc"), (AC, "api_par64_dec"), (AC, "api_mpar_crypt")])

hand("crypt_total_any", """: forall (K : Type) (E : K -> list byte -> list byte) (bs B : nat),
  0 < bs -> 0 < B -> (forall (k : K) (blk : list byte), length (E k blk) = bs) ->
  forall (st : ctr K) (d : list byte), exists (st' : ctr K) (o : list byte), crypt K E bs B st d = Some (st', o)""")
prop("C08", "constant-time: control decisions of the model depend on public parameters only (partial; see MANIFEST)",
     BASE + API,
     [(CT, "crypt_total_any"), (CT, "set_counter_reject"), (SK, "m128_set_key_reject"), (SK, "m64_set_key_reject"),
      (SK, "m128_set_tweak_reject"), (SK, "m64_set_tweak_reject"), (MA, "mantis_set_key_reject"),
      (AC, "api_ctr128_stream"), (AC, "api_par128_enc")])

AE = "ProofsApiErr.v"
prop("C14", "error contract: invalid calls return 0 and change nothing",
     BASE + ["Api", "ProofsApiErr"],
     [(AE, "invalid_changes_nothing"), (AE, "valid_returns_1"), (AE, "history_without_invalid"),
      (AE, "illtyped_is_bad"), (AE, "welltyped_no_bad")])
prop("C18", "thread safety: no hidden shared state; read-only objects may be shared",
     BASE + ["Api", "ProofsApiErr"],
     [(AE, "readonly_same_world"), (AE, "step_respects_weq"), (AE, "distinct_objects_commute"),
      (AE, "interleaving_independent")])

AR = "ProofsArduino.v"; TL = "ProofsTools.v"
prop("C19", "the Arduino port computes the same ciphers as the C library",
     BASE + ["ModelArduino", "ProofsSkinny", "ProofsMantis", "ProofsCtr", "ProofsArduino"],
     [(AR, "a128_plain_equiv"), (AR, "a64_plain_equiv"), (AR, "a128_set_key_wrong_length"), (AR, "a64_set_key_wrong_length"),
      (AR, "a128_tweaked_equiv"), (AR, "a64_tweaked_equiv"),
      (AR, "a128_tweak_history_independent"), (AR, "a64_tweak_history_independent"),
      (AR, "am_equiv"), (AR, "am_set_tweak_equiv"), (AR, "am_wrong_lengths"), (AR, "am_swap_crypt_equiv"),
      (AR, "actr_refinement"), (AR, "actr_matches_c_ctr"), (AR, "actr_inc_spec")])
prop("C20", "example tools: file encryption matches the library and round-trips",
     BASE + ["Api", "ModelTools", "ProofsSkinny", "ProofsCtr", "ProofsApiCtr", "ProofsTools"],
     [(TL, "tool_ctr128_spec"), (TL, "tool_ctr128_length"), (TL, "tool_ctr128_involution"), (TL, "tool_ctr128_backend_independent"),
      (TL, "tool_ctr128_invalid"),
      (TL, "tool_ctr64_spec"), (TL, "tool_ctr64_length"), (TL, "tool_ctr64_involution"), (TL, "tool_ctr64_backend_independent"),
      (TL, "tool_ctr64_invalid"),
      (TL, "tool_ecb128_spec"), (TL, "tool_ecb128_roundtrip"), (TL, "tool_ecb128_invalid"),
      (TL, "tool_ecb64_spec"), (TL, "tool_ecb64_roundtrip"), (TL, "tool_ecb64_invalid"),
      (TL, "tool_tweak128_spec"), (TL, "tool_tweak128_roundtrip"), (TL, "tool_tweak128_invalid"),
      (TL, "tool_tweak64_spec"), (TL, "tool_tweak64_roundtrip"), (TL, "tool_tweak64_invalid"), (TL, "io_chunks_concat")])

# kernel bridge: the model's leaf steps are the kernel specification steps that the regenerated C kernels are proved equal to
KB = "KernelBridge.v"
KBI = ["IR", "KernelSpecs", "KernelSpecs2", "KernelHom", "KernelHom2", "KernelBridge"]
HEADER["C01"] = (HEADER["C01"][0], HEADER["C01"][1] + KBI)
PLAN["C01"] += [(KB, "m128_encrypt_by_kernels"), (KB, "m128_decrypt_by_kernels"), (KB, "m64_encrypt_by_kernels"), (KB, "m64_decrypt_by_kernels"),
                (KB, "bridge128_set_tk1_iteration"), (KB, "bridge128_tk2_iteration"), (KB, "bridge128_tk3_iteration"),
                (KB, "bridge64_set_tk1_iteration"), (KB, "bridge64_tk2_iteration"), (KB, "bridge64_tk3_iteration")]
HEADER["C02"] = (HEADER["C02"][0], HEADER["C02"][1] + KBI)
PLAN["C02"] += [(KB, "mantis_crypt_by_kernels"), (KB, "mantis_crypt_tweaked_by_kernels"), (KB, "mantis_fwd_by_kernels"), (KB, "mantis_bwd_by_kernels")]
HEADER["C04"] = (HEADER["C04"][0], HEADER["C04"][1] + KBI)
PLAN["C04"] += [(KB, "bridge128_xor_tk1_iteration"), (KB, "bridge64_xor_tk1_iteration")]
K3 = "KernelHom3.v"
HEADER["C07"] = (HEADER["C07"][0], HEADER["C07"][1] + ["IR", "KernelSpecs", "KernelSpecs3", "KernelHom", "KernelHom3"])
PLAN["C07"] += [(K3, "kv128_round_lane"), (K3, "kv128_round_inv_lane"), (K3, "kv128_round_blocks"), (K3, "kv128_round_inv_blocks")]
HEADER["C06"] = (HEADER["C06"][0], HEADER["C06"][1] + ["IR", "KernelSpecs", "KernelSpecs3", "KernelHom", "KernelHom3"])
PLAN["C06"] += [(K3, "kv128_round_lane"), (K3, "kv128_round_inv_lane")]

# whole functions (tie T, structured IR): the statements that the obligations regenerated from the current source instantiate
WB = "WholeBridge.v"; WK = "WholeKey.v"; SP = "SIRProofs.v"; SC = "SIRCheck.v"; FR = "Frame.v"
WHI = ["IR", "SIR", "Anf", "IRCheck", "KernelSpecs", "KernelSpecs2", "KernelHom", "KernelHom2", "SIRCheck", "Frame", "WholeSpecs",
       "SIRProofs", "KernelBridge", "WholeBridge", "WholeKey"]
def add_imports(pid, mods):
    HEADER[pid] = (HEADER[pid][0], HEADER[pid][1] + [m for m in mods if m not in HEADER[pid][1]])
hand("interp_flat", """: forall (fields : list field) (callf : nat -> list bool -> list bool),
  disjoint_fields fields -> NoDup fields ->
  forall (fuel : nat) (p : list sstmt) (pl : list N) (sh : shadow) (m : mem bool) (loc : list (list bool)),
  Inv fields sh m ->
  interp fields callf fuel pl (m, loc) p
  = match flat fields fuel pl sh p with
    | Some (pl', sh', code, t) => Some (pl', exec bool xorb andb false true callf code (m, loc), t)
    | None => None
    end""")
hand("interp_trace_public", """: forall (fields : list field) (callf : nat -> list bool -> list bool),
  disjoint_fields fields -> NoDup fields ->
  forall (fuel : nat) (p : list sstmt) (pl : list N) (sh : shadow) (m1 m2 : mem bool) (loc1 loc2 : list (list bool))
         (pl1 : list N) (st1 : mem bool * list (list bool)) (t1 : list event)
         (pl2 : list N) (st2 : mem bool * list (list bool)) (t2 : list event),
  Inv fields sh m1 -> Inv fields sh m2 ->
  interp fields callf fuel pl (m1, loc1) p = Some (pl1, st1, t1) ->
  interp fields callf fuel pl (m2, loc2) p = Some (pl2, st2, t2) ->
  t1 = t2 /\\ pl1 = pl2""")
hand("interp_defined_public", """: forall (fields : list field) (callf : nat -> list bool -> list bool),
  disjoint_fields fields -> NoDup fields ->
  forall (fuel : nat) (p : list sstmt) (pl : list N) (sh : shadow) (m1 m2 : mem bool) (loc1 loc2 : list (list bool)),
  Inv fields sh m1 -> Inv fields sh m2 ->
  (interp fields callf fuel pl (m1, loc1) p = None <-> interp fields callf fuel pl (m2, loc2) p = None)""")
FINALS = [(WB, "enc128_final"), (WB, "dec128_final"), (WB, "enc64_final"), (WB, "dec64_final")]
KEYF = [(WK, "obs_final"), (WK, "reject_final")]
CTT = [(SP, "interp_flat"), (SP, "interp_trace_public"), (SP, "interp_defined_public")]
for pid, items in (("C01", FINALS + KEYF[:1]), ("C03", FINALS[1:2] + FINALS[3:4]), ("C04", KEYF), ("C08", CTT + FINALS[:1] + KEYF),
                   ("C10", KEYF), ("C12", FINALS + KEYF)):
    if pid in PLAN:
        add_imports(pid, WHI); PLAN[pid] += items

# MANTIS whole block functions (WholeMantis.v): mantis_ecb_crypt / mantis_ecb_crypt_tweaked = model, all data, r = 5..8
WM = "WholeMantis.v"
MFIN = [(WM, "mcryptA_final"), (WM, "mcryptB_final"), (WM, "msteps_hom")]
for pid, items in (("C02", MFIN), ("C03", MFIN[:2]), ("C12", MFIN[:2])):
    if pid in PLAN:
        add_imports(pid, WHI + ["ModelCipher", "WholeMantis"]); PLAN[pid] += items

# MANTIS key-schedule functions (WholeMantisKey.v): the specifications the regenerated obligations are checked against, on the
# image of a model schedule, equal the image of the model's result
WMK = "WholeMantisKey.v"
MKF = [(WMK, "w_mantis_set_key_model"), (WMK, "w_mantis_set_tweak_model"), (WMK, "w_mantis_swap_model")]
for pid, items in (("C02", MKF), ("C03", MKF[:1] + MKF[2:]), ("C10", MKF[:1] + KEYF[1:])):
    if pid in PLAN:
        add_imports(pid, WHI + ["ModelCipher", "WholeMantis", "WholeMantisKey"])
        PLAN[pid] += [i_ for i_ in items if i_ not in PLAN[pid]]

# generic CTR encryption as a whole function with the block function as a procedure call (WholeProc.v, WholeCtr.v)
WP = "WholeProc.v"; WC = "WholeCtr.v"
hand("check_proc_sound", """: forall (sizes : list nat) (cB : nat -> list bool -> list bool) (code : list stmt)
    (eP : list (entry poly)) (eB : list (entry bool)),
  Forall2 (entry_hom sizes) eP eB -> check_proc sizes code eP = true ->
  forall m : mem bool, shaped sizes m -> fst (execB cB code (m, [])) = mixed_sem cB eB m""")
WCM = "WholeCtrModel.v"
PCT = [(WCM, "pctr_model"), (WCM, "incB_spec"), (WC, "pctr_final"), (WC, "cspec_hom"), (WP, "check_proc_sound")]
for pid, items in (("C05", PCT),):
    if pid in PLAN:
        add_imports(pid, WHI + ["ModelCipher", "ModelCtr", "WholeProc", "WholeCtr", "WholeCtrModel"]); PLAN[pid] += items

# parallel ECB as a whole function, both callees as procedure calls (WholePar.v)
WPR = "WholePar.v"
PPR = [(WPR, "ppar_model"), (WPR, "ppar_final")]
for pid, items in (("C07", PPR), ("C06", PPR[:1])):
    if pid in PLAN:
        add_imports(pid, WHI + ["ModelCipher", "ModelCtr", "ProofsCtr", "WholeProc", "WholeCtr", "WholeCtrModel", "WholePar"]); PLAN[pid] += items

# SIMD CTR encryption as whole functions, vector block function as a procedure call (WholeCtrVec.v, WholeCtrVecModel.v)
WCV = "WholeCtrVec.v"; WCVM = "WholeCtrVecModel.v"
VCT = [(WCVM, "vctr_model_gen"), (WCVM, "incK_spec"), (WCVM, "incs_4_4_16_closed"), (WCV, "vctr_final")]
VCT = [x for x in VCT if x[1] != "incs_4_4_16_closed"]
for pid, items in (("C05", VCT), ("C06", VCT[:1])):
    if pid in PLAN:
        add_imports(pid, WHI + ["ModelCipher", "ModelCtr", "WholeProc", "WholeCtr", "WholeCtrModel", "WholeCtrVec", "WholeCtrVecModel"]); PLAN[pid] += items

# *_ctr_*_set_counter of every back end (WholeCtrSet.v)
WCS = "WholeCtrSet.v"
SCT = [(WCS, "w_set_counter_model"), (WCS, "set_counter_is_spec"), (WCS, "w_set_counter_homU")]
for pid, items in (("C05", SCT),):
    if pid in PLAN:
        add_imports(pid, WHI + ["ModelCipher", "ModelCtr", "WholeProc", "WholeCtr", "WholeCtrModel", "WholeCtrVec", "WholeCtrVecModel", "WholeCtrSet"]); PLAN[pid] += items

# key / tweak setters of the CTR back ends (WholeCtrKey.v)
WCK = "WholeCtrKey.v"
KCT = [(WCK, "w_ctr_lift_homU")]
for pid, items in (("C10", KCT), ("C04", KCT)):
    if pid in PLAN:
        add_imports(pid, WHI + ["ModelCipher", "WholeMantis", "WholeMantisKey", "WholeProc", "WholeCtr", "WholeCtrKey"]); PLAN[pid] += items

# non-vacuity of the call contracts (WholeContracts.v)
WCO = "WholeContracts.v"
CON = [(WCO, "block_contract_satisfiable"), (WCO, "par_contracts_satisfiable"), (WCO, "ex_crypt_defined")]
for pid, items in (("C05", CON[:1] + CON[2:]), ("C07", CON[:2])):
    if pid in PLAN:
        add_imports(pid, WHI + ["ModelCipher", "ModelCtr", "ProofsCtr", "WholeProc", "WholeCtr", "WholeCtrModel", "WholeCtrVec", "WholeCtrVecModel", "WholePar", "WholeContracts"]); PLAN[pid] += items

# MANTIS parallel ECB (WholeParM.v)
WPM = "WholeParM.v"
PPM = [(WPM, "pparM_model"), (WPM, "pparM_final")]
for pid, items in (("C07", PPM),):
    if pid in PLAN:
        add_imports(pid, WHI + ["ModelCipher", "ModelCtr", "ProofsCtr", "WholeProc", "WholeCtr", "WholeCtrModel", "WholePar", "WholeParM"]); PLAN[pid] += items

# key setters of the parallel-ECB objects (WholeParKey.v)
WPK = "WholeParKey.v"
for pid, items in (("C10", [(WPK, "w_par_lift_homU")]), ("C03", [(WPK, "w_par_swap_homU")])):
    if pid in PLAN:
        add_imports(pid, WHI + ["ModelCipher", "WholeMantis", "WholeMantisKey", "WholeParKey"]); PLAN[pid] += items

# tweaked key schedules and the set_tweak functions on the key-schedule image (WholeKeyTweak.v)
WKT = "WholeKeyTweak.v"
KTW = [(WKT, "key_sched128_tweaked_model"), (WKT, "key_sched64_tweaked_model"), (WKT, "w_set_tweak128_model"), (WKT, "w_set_tweak64_model"),
       (WKT, "w_set_tweaked_key128_model"), (WKT, "w_set_tweaked_key64_model")]
for pid, items in (("C04", KTW), ("C10", KTW[:2] + KTW[4:])):
    if pid in PLAN:
        add_imports(pid, WHI + ["ModelCipher", "ModelCtr", "WholeProc", "WholeCtr", "WholeCtrModel", "WholeKeyTweak"]); PLAN[pid] += items

# the two whole-function layers composed: CTR with the call run by the block function's own code (WholeCompose.v)
WCM = "WholeCompose.v"
CMP = [(WCM, "pctr128_composed"), (WCM, "pctr64_composed"), ("WholeComposeM.v", "pctrM_composed")]
for pid, items in (("C05", CMP),):
    if pid in PLAN:
        add_imports(pid, WHI + ["ModelCipher", "ModelCtr", "ProofsApiCtr", "WholeProc", "WholeCtr", "WholeCtrModel", "WholeContracts", "WholeKeyTweak", "WholeMantis", "WholeCompose", "WholeComposeM"]); PLAN[pid] += items

# parallel ECB with the single-block callee run by its own code (WholeComposePar.v)
WCP = "WholeComposePar.v"
WCD = "WholeComposeDec.v"
for pid, items in (("C07", [(WCP, "ppar128_enc_composed"), (WCP, "ppar64_enc_composed"), (WCD, "ppar128_dec_composed"), (WCD, "ppar64_dec_composed")]),):
    if pid in PLAN:
        add_imports(pid, WHI + ["ModelCipher", "ModelCtr", "ProofsCtr", "ProofsApiCtr", "WholeProc", "WholeCtr", "WholeCtrModel", "WholePar", "WholeContracts", "WholeKeyTweak", "WholeCompose", "WholeComposePar", "WholeComposeDec"]); PLAN[pid] += items

# capstone: set_key specification then the block function's own code = the paper's cipher (WholeEndToEnd.v)
WEE = "WholeEndToEnd.v"
for pid, items in (("C01", [(WEE, "c_set_key_then_encrypt128_spec"), (WEE, "c_set_key_then_encrypt64_spec")]),
                   ("C03", [(WEE, "c_set_key_then_decrypt128_spec"), (WEE, "c_set_key_then_decrypt64_spec")])):
    if pid in PLAN:
        add_imports(pid, WHI + ["ModelCipher", "ProofsSkinny", "WholeProc", "WholeCtr", "WholeCtrModel", "WholeKeyTweak", "WholeCompose", "WholeEndToEnd"]); PLAN[pid] += items

# MANTIS capstone (WholeEndToEndM.v)
for pid, items in (("C02", [("WholeEndToEndM.v", "c_mantis_set_key_then_crypt_spec")]),):
    if pid in PLAN:
        add_imports(pid, WHI + ["SpecMantis", "ModelCipher", "ProofsMantis", "WholeMantis", "WholeMantisKey", "WholeProc", "WholeCtr", "WholeCtrModel", "WholeCompose", "WholeComposeM", "WholeEndToEndM"]); PLAN[pid] += items

# C04 history capstone (WholeEndToEndT.v)
for pid, items in (("C04", [("WholeEndToEndT.v", "c_set_tweak128_fold"), ("WholeEndToEndT.v", "c_tweak_history_then_encrypt128_spec"), ("WholeEndToEndT.v", "c_tweak_history_then_encrypt64_spec"),
                              ("WholeEndToEndT.v", "c_tweak_history_then_decrypt128_spec"), ("WholeEndToEndT.v", "c_tweak_history_then_decrypt64_spec")]),):
    if pid in PLAN:
        add_imports(pid, WHI + ["ModelCipher", "ProofsSkinny", "WholeProc", "WholeCtr", "WholeCtrModel", "WholeKeyTweak", "WholeCompose", "WholeEndToEndT"]); PLAN[pid] += items

# C10 padding on the code-level specification (WholeEndToEndK.v)
for pid, items in (("C10", [("WholeEndToEndK.v", "c_set_key128_padding"), ("WholeEndToEndK.v", "c_set_key64_padding")]),):
    if pid in PLAN:
        add_imports(pid, WHI + ["ModelCipher", "ProofsSkinny", "WholeEndToEndK"]); PLAN[pid] += items
