# plan of the property files (executed by mkprops.py)
SK = "ProofsSkinny.v"; MA = "ProofsMantis.v"; CT = "ProofsCtr.v"; CP = "ProofsCpu.v"
BASE = ["Bits", "SpecSkinny", "SpecMantis", "ModelCipher", "ModelCtr", "ModelCpu"]

prop("C01", "SKINNY block encryption/decryption conform to the specification",
     BASE + ["ProofsSkinny"],
     [(SK, "m128_set_key_spec"), (SK, "m64_set_key_spec"),
      (SK, "skinny128_dec_enc"), (SK, "skinny128_enc_dec"), (SK, "skinny64_dec_enc"), (SK, "skinny64_enc_dec"),
      (SK, "S8_inv_l"), (SK, "S8_inv_r"), (SK, "S4_inv_l"), (SK, "S4_inv_r")])

prop("C02", "MANTIS-5..8 conform to the specification",
     BASE + ["ProofsMantis"],
     [(MA, "mantis_model_spec"), (MA, "mantis_dec_enc"), (MA, "mantis_enc_dec"), (MA, "mantis_core_inverse"),
      (MA, "Sb0_involutive")])

prop("C04", "tweakable SKINNY depends only on key and latest tweak",
     BASE + ["ProofsSkinny"],
     [(SK, "c04_tweak_history128"), (SK, "c04_tweak_history64"), (SK, "m128_set_tweak_reject"), (SK, "m64_set_tweak_reject"),
      (SK, "skinny128_tweaked_dec_enc"), (SK, "skinny128_tweaked_enc_dec"),
      (SK, "skinny64_tweaked_dec_enc"), (SK, "skinny64_tweaked_enc_dec")])

prop("C10", "key lengths: documented range accepted and zero-padded, others rejected",
     BASE + ["ProofsSkinny", "ProofsMantis"],
     [(SK, "m128_set_key_padding"), (SK, "m128_set_key_reject"), (SK, "m128_set_tweaked_key_padding"),
      (SK, "m128_set_tweaked_key_reject"), (SK, "m64_set_key_padding"), (SK, "m64_set_key_reject"),
      (SK, "m64_set_tweaked_key_padding"), (SK, "m64_set_tweaked_key_reject"),
      (MA, "mantis_set_key_reject"), (MA, "mantis_set_tweak_reject")])

prop("C13", "back-end selection is deterministic, accurate and never exceeds the CPU",
     ["ModelCpu", "ProofsCpu"],
     [(CP, "select_is_widest"), (CP, "select_ignores_ambient"), (CP, "probes_ignore_ambient"),
      (CP, "select_v256_usable"), (CP, "select_v128_usable"),
      (CP, "probe256_orig_ambient_refuted"), (CP, "probe256_orig_unsafe_refuted")])

# theorems generalised by a Section: statements as `Check` prints them
hand("ctr_refinement", """: forall (K : Type) (E : K -> list byte -> list byte) (bs B : nat),
  0 < bs -> 0 < B -> (forall (k : K) (blk : list byte), length (E k blk) = bs) ->
  forall (st : ctr K) (c0 : list byte) (calls : list (list byte)),
  fresh_at K bs B st c0 ->
  exists (st' : ctr K) (outs : list (list byte)),
    run_calls K E bs B st calls = Some (st', outs) /\\
    concat outs = ctr_xor bs (E (c_key st)) c0 0 (concat calls) /\\
    map (@length byte) outs = map (@length byte) calls /\\ c_key st' = c_key st""")
hand("set_counter_fresh", """: forall (K : Type) (E : K -> list byte -> list byte) (bs B : nat),
  0 < bs -> 0 < B -> (forall (k : K) (blk : list byte), length (E k blk) = bs) ->
  forall (st : ctr K) (cnt : option (list byte)) (size : N),
  (size <= N.of_nat bs)%N ->
  let blk := match cnt with
             | Some b => zeros (bs - N.to_nat size) ++ pad_to (N.to_nat size) b
             | None => zeros bs
             end in
  set_counter K bs B st cnt size = (1%N, snd (set_counter K bs B st cnt size)) /\\
  fresh_at K bs B (snd (set_counter K bs B st cnt size)) blk /\\
  c_key (snd (set_counter K bs B st cnt size)) = c_key st""")
hand("set_counter_reject", """: forall (K : Type) (bs B : nat), 0 < bs -> 0 < B ->
  forall (st : ctr K) (cnt : buf) (size : N),
  (N.of_nat bs < size)%N -> set_counter K bs B st cnt size = (0%N, st)""")
hand("rekey_restarts", """: forall (K : Type) (E : K -> list byte -> list byte) (bs B : nat),
  0 < bs -> 0 < B -> (forall (k : K) (blk : list byte), length (E k blk) = bs) ->
  forall (st : ctr K) (c0 : list byte) (calls : list (list byte)) (st' : ctr K)
    (outs : list (list byte)) (k' : K),
  fresh_at K bs B st c0 ->
  run_calls K E bs B st calls = Some (st', outs) ->
  fresh_at K bs B (reset_stream K bs B (with_key K st' k'))
    (ctr_add c0 (N.of_nat (B * ((length (concat calls) + B * bs - 1) / (B * bs)))))""")
hand("ctr_split_independent", """: forall (K : Type) (E : K -> list byte -> list byte) (bs B : nat),
  0 < bs -> 0 < B -> (forall (k : K) (blk : list byte), length (E k blk) = bs) ->
  forall (st : ctr K) (c0 : list byte) (calls1 calls2 : list (list byte)),
  fresh_at K bs B st c0 -> concat calls1 = concat calls2 ->
  forall (s1 : ctr K) (o1 : list (list byte)) (s2 : ctr K) (o2 : list (list byte)),
  run_calls K E bs B st calls1 = Some (s1, o1) ->
  run_calls K E bs B st calls2 = Some (s2, o2) -> concat o1 = concat o2""")
hand("ctr_involution", """: forall bs : nat, 0 < bs ->
  forall (Eb : list byte -> list byte) (c0 data : list byte),
  (forall b : list byte, length (Eb b) = bs) -> ctr_xor bs Eb c0 0 (ctr_xor bs Eb c0 0 data) = data""")
hand("counter_block_value", """: forall (bs : nat) (b : list byte) (n : nat),
  length b = n -> n <= bs -> be_value (zeros (bs - n) ++ b) = be_value b""")

prop("C05", "CTR output = input xor E(c),E(c+1),... however the calls split the data",
     BASE + ["ProofsCtr"],
     [(CT, "ctr_refinement"), (CT, "set_counter_fresh"), (CT, "set_counter_reject"), (CT, "counter_block_value"),
      (CT, "ctr_split_independent"), (CT, "ctr_involution"),
      (CT, "inc_counter_is_add"), (CT, "inc_counter_value"), (CT, "be_value_be_bytes"), (CT, "be_bytes_be_value"),
      (CT, "ctr_add_add"), (CT, "ctr_add_0"), (CT, "ctr_add_length")])

prop("C07", "parallel ECB equals block-by-block ECB for every block count",
     BASE + ["ProofsCtr"],
     [(CT, "par_crypt_spec"), (CT, "par_crypt_indep"), (CT, "blocks_concat"), (CT, "blocks_length")])

prop("C03", "decryption inverts encryption through every entry point",
     BASE + ["ProofsSkinny", "ProofsMantis", "ProofsCtr"],
     [(SK, "skinny128_dec_enc"), (SK, "skinny128_enc_dec"), (SK, "skinny64_dec_enc"), (SK, "skinny64_enc_dec"),
      (SK, "skinny128_tweaked_dec_enc"), (SK, "skinny128_tweaked_enc_dec"),
      (SK, "skinny64_tweaked_dec_enc"), (SK, "skinny64_tweaked_enc_dec"),
      (MA, "mantis_dec_enc"), (MA, "mantis_enc_dec"),
      (MA, "swap_swap"), (MA, "crypt_swap_inverse"), (MA, "crypt_tweaked_swap_inverse"),
      (MA, "swap_is_rekey"), (MA, "swap_tweak_history"), (CT, "par_crypt_spec")])

prop("C06", "generic and SIMD back ends are observably identical",
     BASE + ["ProofsCtr"],
     [(CT, "ctr_refinement"), (CT, "rekey_restarts"), (CT, "par_crypt_indep")])
