#!/usr/bin/env python3
"""allparts.py [cfg ...] — regenerate and check EVERY whole-function part (thorough lists) for the given configurations against
/repo (or SKINNY_REPO); prints the parts that fail.  Development aid: the registered checks call checks/whole.py."""
import os, sys, tempfile, shutil
from concurrent.futures import ThreadPoolExecutor
V = os.path.dirname(os.path.dirname(os.path.abspath(__file__)))
sys.path.insert(0, os.path.join(V, "checks"))
import common as C, whole as W
cfgs = sys.argv[1:] or ["native", "w32", "noua", "neutral", "neutral32"]
parts = W.BLK_PARTS + W.key_parts("128", False) + W.key_parts("64", False) + W.ct_part_names(False)
gen = tempfile.mkdtemp(prefix="allparts_", dir="/var/tmp")
C.coq_make(["WholeKey.vo"])
jobs = [(c, p) for c in cfgs for p in parts if not (("_v128_" in p or "_v256_" in p) and c not in ("native", "w32", "noua"))]
print(len(jobs), "jobs"); sys.stdout.flush()
bad = []
with ThreadPoolExecutor(max_workers=16) as ex:
    for r in ex.map(lambda cp: W.one(C.REPO, gen, cp[0], cp[1]), jobs):
        if not r["ok"]:
            bad.append(r); print("FAILED", r["cfg"], r["part"], r.get("stage"), r.get("failed"), (r.get("log") or "")[-300:].replace("\n", " | ")); sys.stdout.flush()
print("done:", len(jobs) - len(bad), "ok,", len(bad), "failed")
shutil.rmtree(gen, ignore_errors=True)
