#!/usr/bin/env python3
"""evalmut.py <Cnn> [<extra props to run>...] — for every /tmp/mut_<Cnn>/deliver/change<i>.diff:
 (a) confirm in the scratch worktree that the change compiles, the 30 tests pass, the demo fails with it and passes without;
 (b) apply it to /repo, run ./check <Cnn> (quick) [+ extras], undo it; report detection.  Nothing is committed to /repo."""
import glob, json, os, re, subprocess, sys, shutil
pid = sys.argv[1]; extras = sys.argv[2:]
wt = "/tmp/mut_%s" % pid
def sh(cmd, cwd=None, timeout=1800):
    p = subprocess.run(cmd, shell=True, cwd=cwd, capture_output=True, text=True, timeout=timeout)
    return p.returncode, p.stdout + p.stderr
def build_demo(i):
    src = [f for f in glob.glob("%s/deliver/demo%d.*" % (wt, i)) if not f.endswith((".o", ".txt")) and os.path.splitext(f)[1] in (".c", ".cpp", ".sh")]
    if not src: return None
    src.sort(key=lambda f: 0 if f.endswith(".sh") else 1)
    s = src[0]
    if s.endswith(".sh"): return "sh " + s
    head = open(s).read()[:3000]
    extra = ""
    if "--wrap" in head:
        m = re.search(r"-Wl,--wrap=[\w,=-]+", head); extra = " " + " ".join(re.findall(r"-Wl,--wrap=\w+", head))
    if "pthread" in head: extra += " -lpthread"
    cc = "g++ -Iarduino/libraries/Skinny" if s.endswith(".cpp") else "gcc"
    libs = "src/libskinny.a" if not s.endswith(".cpp") else "src/libskinny.a arduino/libraries/Skinny/*.cpp"
    if s.endswith(".cpp") and "libskinny" not in head and "skinny128-cipher.h" not in head:
        libs = "arduino/libraries/Skinny/*.cpp"
    rc, out = sh("%s -Iinclude -Isrc %s %s -o deliver/demo%d.bin%s" % (cc, s, libs, i, extra), cwd=wt)
    if rc != 0: return "BUILDFAIL " + out[-300:]
    return "./deliver/demo%d.bin" % i
res = []
for diff in sorted(glob.glob("%s/deliver/change*.diff" % wt)):
    i = int(re.search(r"change(\d+)", diff).group(1))
    r = {"change": i}
    sh("git checkout -- . && git clean -fdq -e deliver", cwd=wt)
    rc, out = sh("git apply %s" % diff, cwd=wt)
    if rc != 0: r["verify"] = "patch does not apply"; res.append(r); continue
    rc, out = sh("make clean all check 2>&1", cwd=wt)
    r["tests_ok"] = out.count(": ok") ; r["compiled"] = rc == 0
    d = build_demo(i)
    if d and not d.startswith("BUILDFAIL"):
        rc1, o1 = sh(d, cwd=wt, timeout=300); r["demo_with_change"] = rc1
    else:
        r["demo_with_change"] = d
    sh("git checkout -- . && git clean -fdq -e deliver", cwd=wt)
    sh("make clean all 2>&1", cwd=wt)
    d = build_demo(i)
    if d and not d.startswith("BUILDFAIL"):
        rc2, o2 = sh(d, cwd=wt, timeout=300); r["demo_pristine"] = rc2
    # detection
    rc, out = sh("git -C /repo apply %s" % diff)
    if rc != 0: r["detect"] = "does not apply to /repo: " + out[-200:]; res.append(r); continue
    try:
        det = {}
        for p in [pid] + extras:
            rc, out = sh("./check %s --tier quick" % p, cwd="/verif", timeout=3000)
            v = [l for l in out.splitlines() if l.startswith("VIOLATION")]
            det[p] = {"rc": rc, "violations": len(v), "first": (v[0] if v else ""), "tail": out.strip().splitlines()[-1][:200]}
            for l in v[:1]:
                m = re.search(r"replay=(\S+)", l)
                if m and os.path.exists(m.group(1)):
                    dd = json.load(open(m.group(1))); det[p]["what"] = (dd.get("what", "") + " | " + str(dd.get("detail", ""))[:200])[:400]
        r["detect"] = det
    finally:
        sh("git -C /repo checkout -- .")
        sh("rm -f /verif/replays/*.json")
    res.append(r)
print(json.dumps(res, indent=1))
