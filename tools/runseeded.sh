#!/bin/sh
# runseeded.sh <seeded id, e.g. C03-4> <property> [tier] — runs ./check <property> against a scratch copy of /repo with the
# seeded patch applied (SKINNY_REPO); neither /repo nor /verif/evidence is touched.
sid=$1; prop=$2; tier=${3:-quick}
d=$(mktemp -d /var/tmp/rs_XXXXXX)
(cd /repo && git ls-files -z | xargs -0 cp --parents -t $d)
(cd $d && patch -s -p1 < /verif/seeded/$sid/patch.diff) || { echo "patch failed"; rm -rf $d; exit 2; }
cd /verif && SKINNY_REPO=$d SKV_EVIDENCE_DIR=$d/ev SKV_REPLAY_DIR=$d/ev/r ./check $prop --tier $tier 2>&1 | tail -2 | sed "s/^/[$sid vs $prop] /"
rm -rf $d
