#!/bin/sh
# Builds the framework from files on disk only (offline): full .vo build of the Coq development
# (never -vos), hygiene check, extraction + OCaml model runner.
set -e
cd "$(dirname "$0")"
cd coq
rm -f Makefile Makefile.conf .Makefile.d
coq_makefile -f _CoqProject -o Makefile > /dev/null
timeout 3000 make -j16 > ../build_coq.log 2>&1 || { tail -40 ../build_coq.log; exit 1; }
cd ..
python3 - <<'PY'
import sys
sys.path.insert(0, "checks")
import common
bad = common.coq_hygiene()
if bad:
    print("forbidden constructs in the Coq development:", bad); sys.exit(1)
print("model runner:", common.build_model())
PY
echo "setup ok"
