/* threads.c — C18 harness: the same per-thread workloads are run sequentially and then
   concurrently (pthread), on thread-private objects of every kind plus SHARED read-only
   key schedules and parallel-ECB objects, with concurrent init/cleanup (CPU probing).
   Prints one line per thread: "thread <i> seq <hash> par <hash>"; exit 1 if any differs.
   Built with -fsanitize=thread, a data race makes TSan exit with status 66. */
#define _GNU_SOURCE
#include <pthread.h>
#include <stdint.h>
#include <stdio.h>
#include <stdlib.h>
#include <string.h>
#include "skinny128-cipher.h"
#include "skinny128-parallel.h"
#include "skinny64-cipher.h"
#include "skinny64-parallel.h"
#include "mantis-cipher.h"
#include "mantis-parallel.h"

/* CPUID hooks (library built with -DSKINNY_C_VERIF): the real CPU, no state */
void _skinny_verif_cpuid(unsigned leaf, int has_subleaf, unsigned subleaf, unsigned regs[4])
{
    unsigned a, b, c, d;
    (void)has_subleaf;
    __asm__ __volatile__ ("cpuid" : "=a"(a), "=b"(b), "=c"(c), "=d"(d) : "a"(leaf), "c"(subleaf));
    regs[0] = a; regs[1] = b; regs[2] = c; regs[3] = d;
}
unsigned _skinny_verif_xgetbv(unsigned index)
{
    unsigned regs[4], lo, hi;
    _skinny_verif_cpuid(1, 1, 0, regs);
    if (!(regs[2] & (1u << 27))) return 0;
    __asm__ __volatile__ (".byte 0x0f, 0x01, 0xd0" : "=a"(lo), "=d"(hi) : "c"(index));
    (void)hi;
    return lo;
}

typedef struct { uint64_t s; } Rng;
static uint64_t rnd(Rng *r) { r->s ^= r->s << 13; r->s ^= r->s >> 7; r->s ^= r->s << 17; return r->s; }
static void rbytes(Rng *r, uint8_t *p, size_t n) { while (n--) *p++ = (uint8_t)(rnd(r) >> 24); }
static uint64_t mix(uint64_t h, const void *p, size_t n)
{
    const uint8_t *b = p;
    while (n--) { h ^= *b++; h *= 0x100000001b3ULL; }
    return h;
}

/* shared, read-only after setup */
static Skinny128Key_t sh_k128; static Skinny64Key_t sh_k64; static MantisKey_t sh_mk;
static Skinny128TweakedKey_t sh_t128;
static Skinny128ParallelECB_t sh_p128; static Skinny64ParallelECB_t sh_p64; static MantisParallelECB_t sh_mp;

static uint64_t workload(unsigned tid, unsigned iters)
{
    Rng r = { 0x9e3779b97f4a7c15ULL * (tid + 1) };
    uint64_t h = 0xcbf29ce484222325ULL;
    uint8_t key[48], buf[1024], out[1024], tw[1024], ctr[16];
    unsigned it;
    for (it = 0; it < iters; it++) {
        Skinny128Key_t k128; Skinny64TweakedKey_t t64; MantisKey_t mk;
        Skinny128CTR_t c128; Skinny64CTR_t c64; MantisCTR_t mc;
        Skinny128ParallelECB_t p128; MantisParallelECB_t mp;
        size_t n;
        int ret;
        /* private key schedules */
        rbytes(&r, key, 48);
        ret = skinny128_set_key(&k128, key, 16 + (unsigned)(rnd(&r) % 33)); h = mix(h, &ret, sizeof ret);
        rbytes(&r, buf, 16); skinny128_ecb_encrypt(out, buf, &k128); h = mix(h, out, 16);
        skinny128_ecb_decrypt(out, buf, &k128); h = mix(h, out, 16);
        ret = skinny64_set_tweaked_key(&t64, key, 8 + (unsigned)(rnd(&r) % 9)); h = mix(h, &ret, sizeof ret);
        ret = skinny64_set_tweak(&t64, key + 20, 1 + (unsigned)(rnd(&r) % 8)); h = mix(h, &ret, sizeof ret);
        skinny64_ecb_encrypt(out, buf, &t64.ks); h = mix(h, out, 8);
        ret = mantis_set_key(&mk, key, 16, 5 + (unsigned)(rnd(&r) % 4), (int)(rnd(&r) & 1)); h = mix(h, &ret, sizeof ret);
        mantis_set_tweak(&mk, key + 16, 8); mantis_ecb_crypt(out, buf, &mk); h = mix(h, out, 8);
        mantis_swap_modes(&mk); mantis_ecb_crypt(out, buf, &mk); h = mix(h, out, 8);
        /* private CTR objects: concurrent init = concurrent CPU probing and allocation */
        ret = skinny128_ctr_init(&c128); h = mix(h, &ret, sizeof ret);
        ret = skinny64_ctr_init(&c64); h = mix(h, &ret, sizeof ret);
        ret = mantis_ctr_init(&mc); h = mix(h, &ret, sizeof ret);
        skinny128_ctr_set_tweaked_key(&c128, key, 32); skinny128_ctr_set_tweak(&c128, key + 3, 7);
        rbytes(&r, ctr, 16); skinny128_ctr_set_counter(&c128, ctr, 1 + (unsigned)(rnd(&r) % 16));
        skinny64_ctr_set_key(&c64, key, 24); mantis_ctr_set_key(&mc, key, 16, 7); mantis_ctr_set_tweak(&mc, key + 9, 8);
        n = (size_t)(rnd(&r) % 700); rbytes(&r, buf, n);
        ret = skinny128_ctr_encrypt(out, buf, n, &c128); h = mix(h, out, n);
        ret = skinny128_ctr_encrypt(out, buf, n / 3, &c128); h = mix(h, out, n / 3);
        ret = skinny64_ctr_encrypt(out, buf, n, &c64); h = mix(h, out, n);
        ret = mantis_ctr_encrypt(out, buf, n, &mc); h = mix(h, out, n);
        skinny128_ctr_cleanup(&c128); skinny64_ctr_cleanup(&c64); mantis_ctr_cleanup(&mc);
        /* private parallel objects */
        ret = skinny128_parallel_ecb_init(&p128); h = mix(h, &ret, sizeof ret); h = mix(h, &p128.parallel_size, sizeof(size_t));
        skinny128_parallel_ecb_set_key(&p128, key, 48);
        n = 16 * (size_t)(rnd(&r) % 40); rbytes(&r, buf, n);
        skinny128_parallel_ecb_encrypt(out, buf, n, &p128); h = mix(h, out, n);
        skinny128_parallel_ecb_decrypt(out, buf, n, &p128); h = mix(h, out, n);
        skinny128_parallel_ecb_cleanup(&p128);
        ret = mantis_parallel_ecb_init(&mp); mantis_parallel_ecb_set_key(&mp, key, 16, 6, 1);
        n = 8 * (size_t)(rnd(&r) % 40); rbytes(&r, buf, n); rbytes(&r, tw, n);
        mantis_parallel_ecb_crypt(out, buf, tw, n, &mp); h = mix(h, out, n);
        mantis_parallel_ecb_cleanup(&mp);
        /* SHARED objects, read-only use from every thread at once */
        rbytes(&r, buf, 16);
        skinny128_ecb_encrypt(out, buf, &sh_k128); h = mix(h, out, 16);
        skinny128_ecb_decrypt(out, buf, &sh_k128); h = mix(h, out, 16);
        skinny128_ecb_encrypt(out, buf, &sh_t128.ks); h = mix(h, out, 16);
        skinny64_ecb_encrypt(out, buf, &sh_k64); h = mix(h, out, 8);
        skinny64_ecb_decrypt(out, buf, &sh_k64); h = mix(h, out, 8);
        mantis_ecb_crypt(out, buf, &sh_mk); h = mix(h, out, 8);
        mantis_ecb_crypt_tweaked(out, buf, buf + 8, &sh_mk); h = mix(h, out, 8);
        n = 16 * (size_t)(rnd(&r) % 30); rbytes(&r, buf, n); rbytes(&r, tw, n);
        skinny128_parallel_ecb_encrypt(out, buf, n, &sh_p128); h = mix(h, out, n);
        skinny128_parallel_ecb_decrypt(out, buf, n, &sh_p128); h = mix(h, out, n);
        skinny64_parallel_ecb_encrypt(out, buf, n, &sh_p64); h = mix(h, out, n);
        skinny64_parallel_ecb_decrypt(out, buf, n, &sh_p64); h = mix(h, out, n);
        mantis_parallel_ecb_crypt(out, buf, tw, n, &sh_mp); h = mix(h, out, n);
    }
    return h;
}

typedef struct { unsigned tid, iters; uint64_t h; } Arg;
static void *runner(void *p) { Arg *a = p; a->h = workload(a->tid, a->iters); return NULL; }

int main(int argc, char **argv)
{
    unsigned nthreads = argc > 1 ? (unsigned)atoi(argv[1]) : 8;
    unsigned iters = argc > 2 ? (unsigned)atoi(argv[2]) : 40;
    static const uint8_t k[48] = { 1, 2, 3, 4, 5, 6, 7, 8, 9, 10, 11, 12, 13, 14, 15, 16, 17, 18, 19, 20 };
    uint64_t seq[64];
    pthread_t th[64];
    Arg args[64];
    unsigned i;
    int bad = 0;
    if (nthreads > 64) nthreads = 64;
    skinny128_set_key(&sh_k128, k, 32); skinny64_set_key(&sh_k64, k, 16); mantis_set_key(&sh_mk, k, 16, 8, 1);
    mantis_set_tweak(&sh_mk, k + 4, 8);
    skinny128_set_tweaked_key(&sh_t128, k, 16); skinny128_set_tweak(&sh_t128, k + 5, 9);
    skinny128_parallel_ecb_init(&sh_p128); skinny128_parallel_ecb_set_key(&sh_p128, k, 48);
    skinny64_parallel_ecb_init(&sh_p64); skinny64_parallel_ecb_set_key(&sh_p64, k, 24);
    mantis_parallel_ecb_init(&sh_mp); mantis_parallel_ecb_set_key(&sh_mp, k, 16, 7, 0);
    for (i = 0; i < nthreads; i++) seq[i] = workload(i, iters);
    for (i = 0; i < nthreads; i++) { args[i].tid = i; args[i].iters = iters; pthread_create(&th[i], NULL, runner, &args[i]); }
    for (i = 0; i < nthreads; i++) pthread_join(th[i], NULL);
    for (i = 0; i < nthreads; i++) {
        printf("thread %u seq %016llx par %016llx%s\n", i, (unsigned long long)seq[i], (unsigned long long)args[i].h,
               seq[i] == args[i].h ? "" : " MISMATCH");
        if (seq[i] != args[i].h) bad = 1;
    }
    skinny128_parallel_ecb_cleanup(&sh_p128); skinny64_parallel_ecb_cleanup(&sh_p64); mantis_parallel_ecb_cleanup(&sh_mp);
    return bad;
}
