(* model_main.ml — reads an operation script (harness/SCRIPT.md), runs the
   extracted Coq model (Model.step) on it and prints the result lines in the
   same format as harness/driver.c.  Only glue: parsing, number conversion,
   printing. *)
open Model

let rec pos_of_int i =
  if i = 1 then XH else if i land 1 = 1 then XI (pos_of_int (i lsr 1)) else XO (pos_of_int (i lsr 1))
let n_of_int i = if i = 0 then N0 else Npos (pos_of_int i)
let rec int_of_pos = function XH -> 1 | XO p -> 2 * int_of_pos p | XI p -> 2 * int_of_pos p + 1
let int_of_n = function N0 -> 0 | Npos p -> int_of_pos p

(* decimal printing without overflow (parallel_size of a never-initialised object can be 2^64-1) *)
let string_of_n (x : n) : string =
  let dbl_add digits carry =   (* digits: little-endian decimal digits *)
    let rec go ds c = match ds with
      | [] -> if c = 0 then [] else [c]
      | d :: r -> let v = 2 * d + c in (v mod 10) :: go r (v / 10) in
    go digits carry in
  let rec of_pos = function
    | XH -> [1]
    | XO p -> dbl_add (of_pos p) 0
    | XI p -> dbl_add (of_pos p) 1 in
  match x with
  | N0 -> "0"
  | Npos p -> String.concat "" (List.rev_map string_of_int (of_pos p))

let byte_of_int i : byte =
  let b k = (i lsr k) land 1 = 1 in
  (((((((b 7, b 6), b 5), b 4), b 3), b 2), b 1), b 0)
let int_of_byte (x : byte) =
  let (((((((b7, b6), b5), b4), b3), b2), b1), b0) = x in
  let v b k = if b then 1 lsl k else 0 in
  v b7 7 + v b6 6 + v b5 5 + v b4 4 + v b3 3 + v b2 2 + v b1 1 + v b0 0

let hexval c = match c with
  | '0'..'9' -> Char.code c - 48 | 'a'..'f' -> Char.code c - 87
  | _ -> failwith "bad hex digit"
let bytes_of_hex s : byte list =
  if s = "." then [] else begin
    if String.length s mod 2 <> 0 then failwith "odd hex";
    List.init (String.length s / 2) (fun i -> byte_of_int (16 * hexval s.[2*i] + hexval s.[2*i+1]))
  end
let buf_of_hex s : buf = if s = "-" then None else Some (bytes_of_hex s)
let hex_of_bytes (l : byte list) =
  if l = [] then "." else begin
    let b = Buffer.create (2 * List.length l) in
    List.iter (fun x -> Buffer.add_string b (Printf.sprintf "%02x" (int_of_byte x))) l;
    Buffer.contents b
  end
let num_of_hex s = n_of_int (int_of_string ("0x" ^ s))
let obj_of s = if s = "-" then None else Some (n_of_int (int_of_string s))
let num s = n_of_int (int_of_string s)

let kind_of = function
  | "k128" -> K128 | "t128" -> T128 | "c128" -> C128 | "p128" -> P128
  | "k64" -> K64 | "t64" -> T64 | "c64" -> C64 | "p64" -> P64
  | "mk" -> MK | "mc" -> MC | "mp" -> MP
  | s -> failwith ("bad kind " ^ s)
let backend_of = function
  | "def" -> BDef | "v128" -> BV128 | "v256" -> BV256 | s -> failwith ("bad backend " ^ s)
let backend_name = function BDef -> "def" | BV128 -> "v128" | BV256 -> "v256"

let has_flag f rest = List.mem f rest

(* "@<lineno>" tokens stand for the output bytes of an earlier line *)
let saved : (int, string) Hashtbl.t = Hashtbl.create 64
let subst tok =
  if String.length tok > 1 && tok.[0] = '@' then
    (try Hashtbl.find saved (int_of_string (String.sub tok 1 (String.length tok - 1)))
     with Not_found -> failwith ("no saved output for " ^ tok))
  else tok

let parse (toks : string list) : op option =
  match toks with
  | [] -> None
  | "cfg" :: "backend" :: [b] -> Some (OCfgBackend (backend_of b))
  | "cfg" :: "cpu" :: ["real"] -> Some OCfgCpuReal
  | "cfg" :: "cpu" :: [ml; c1; d1; b70; b7n; x; oor] ->
      Some (OCfgCpuSim { max_leaf = num_of_hex ml; l1_ecx = num_of_hex c1; l1_edx = num_of_hex d1;
                         l7_ebx0 = num_of_hex b70; l7_ebxN = num_of_hex b7n; xcr0 = num_of_hex x;
                         oor_ebx = num_of_hex oor })
  | "cfg" :: "ambient" :: [a] -> Some (OCfgAmbient (num_of_hex a))
  | "cfg" :: "failalloc" :: [k] -> Some (OCfgFail (num k))
  | ["probe"] -> Some OProbe
  | "new" :: k :: id :: [f] -> Some (ONew (kind_of k, num id, List.hd (bytes_of_hex f)))
  | k :: opn :: o :: rest ->
      let kd = kind_of k and ob = obj_of o in
      Some (match kd, opn, rest with
        | (K128 | K64 | C128 | C64 | P128 | P64), "setkey", [h; n] -> OSetKey (kd, ob, buf_of_hex h, num n)
        | (T128 | T64 | C128 | C64), "settk", [h; n] -> OSetTweakedKey (kd, ob, buf_of_hex h, num n)
        | (T128 | T64 | C128 | C64 | MK | MC), "settweak", [h; n] -> OSetTweak (kd, ob, buf_of_hex h, num n)
        | MK, "setkey", [h; n; r; m] -> OMSetKey (kd, ob, buf_of_hex h, num n, num r, num m)
        | MP, "setkey", [h; n; r; m] -> OMSetKey (kd, ob, buf_of_hex h, num n, num r, num m)
        | MC, "setkey", [h; n; r] -> OMSetKey (kd, ob, buf_of_hex h, num n, num r, n_of_int 1)
        | (MK | MP), "swap", [] -> OSwap (kd, ob)
        | (K128 | K64 | T128 | T64), "enc", h :: _ -> OEnc (kd, ob, bytes_of_hex h)
        | (K128 | K64 | T128 | T64), "dec", h :: _ -> ODec (kd, ob, bytes_of_hex h)
        | MK, "crypt", h :: _ -> OEnc (kd, ob, bytes_of_hex h)
        | MK, "cryptt", h :: t :: _ -> OCryptT (ob, bytes_of_hex h, bytes_of_hex t)
        | (K128 | K64 | T128 | T64 | MK), "img", [] -> OImg (kd, ob)
        | (C128 | C64 | MC | P128 | P64 | MP), "init", [] -> OInit (kd, ob)
        | (C128 | C64 | MC | P128 | P64 | MP), "cleanup", [] -> OCleanup (kd, ob)
        | (C128 | C64 | MC), "setctr", [h; n] -> OSetCtr (kd, ob, buf_of_hex h, num n)
        | (C128 | C64 | MC), "crypt", h :: n :: fl -> OCrypt (kd, ob, buf_of_hex h, num n, has_flag "outnull" fl)
        | (P128 | P64), "enc", h :: n :: _ -> OParEnc (kd, ob, bytes_of_hex h, num n)
        | (P128 | P64), "dec", h :: n :: _ -> OParDec (kd, ob, bytes_of_hex h, num n)
        | MP, "crypt", h :: t :: n :: _ -> OMParCrypt (ob, bytes_of_hex h, bytes_of_hex t, num n)
        | (C128 | C64 | MC | P128 | P64 | MP), "which", [] -> OWhich (kd, ob)
        | (P128 | P64 | MP), "psize", [] -> OPsize (kd, ob)
        | _ -> failwith ("bad op: " ^ String.concat " " toks))
  | _ -> failwith ("bad line: " ^ String.concat " " toks)

(* result lines; events that belong on one line are joined by the driver's rules *)
let print_events ln (evs : event list) =
  List.iter (fun e ->
    let s = match e with
      | EAlloc n -> Printf.sprintf "alloc %d" (int_of_n n)
      | EAllocFail -> "allocfail"
      | EFree (n, z) -> Printf.sprintf "free %d %s" (int_of_n n) (if z then "zero" else "nonzero")
      | ERet r -> Printf.sprintf "ret %d" (int_of_n r)
      | ERetOut (r, o) -> Hashtbl.replace saved ln (hex_of_bytes o);
          Printf.sprintf "ret %d out %s" (int_of_n r) (hex_of_bytes o)
      | EOut o -> Hashtbl.replace saved ln (hex_of_bytes o); Printf.sprintf "out %s" (hex_of_bytes o)
      | EDone -> "done"
      | EImg (r, b, None) -> Printf.sprintf "img %s %s" (string_of_n r) (hex_of_bytes b)
      | EImg (r, b, Some t) -> Printf.sprintf "img %s %s %s" (string_of_n r) (hex_of_bytes b) (hex_of_bytes t)
      | EWhich None -> "which none"
      | EWhich (Some b) -> "which " ^ backend_name b
      | EPsize n -> Printf.sprintf "psize %s" (string_of_n n)
      | EProbe (a, b) -> Printf.sprintf "probe %d %d" (if a then 1 else 0) (if b then 1 else 0)
      | EBad n -> Printf.sprintf "MODEL-UNDEFINED %d" (int_of_n n)
    in Printf.printf "%d %s\n" ln s) evs

(* ---- Arduino mode: model --arduino <script> ---- *)
let rec nat_of_int i = if i <= 0 then O else S (nat_of_int (i - 1))
let acls_of = function
  | "s128_128" -> AS128 (nat_of_int 1) | "s128_256" -> AS128 (nat_of_int 2) | "s128_384" -> AS128 (nat_of_int 3)
  | "s128_256t" -> AS128T (nat_of_int 1) | "s128_384t" -> AS128T (nat_of_int 2)
  | "s64_64" -> AS64 (nat_of_int 1) | "s64_128" -> AS64 (nat_of_int 2) | "s64_192" -> AS64 (nat_of_int 3)
  | "s64_128t" -> AS64T (nat_of_int 1) | "s64_192t" -> AS64T (nat_of_int 2)
  | "mantis8" -> AM8
  | "ctr_s128_128" -> ACTR (nat_of_int 1) | "ctr_s128_256" -> ACTR (nat_of_int 2) | "ctr_s128_384" -> ACTR (nat_of_int 3)
  | "ctr_s128_256t" -> ACTRT (nat_of_int 1) | "ctr_s128_384t" -> ACTRT (nat_of_int 2)
  | s -> failwith ("bad class " ^ s)
let aparse toks : aop =
  match toks with
  | ["new"; c; id] -> ANew (acls_of c, num id)
  | [id; "setkey"; h] -> ASetKey (num id, bytes_of_hex h)
  | [id; "settweak"; h; n] -> ASetTweak (num id, buf_of_hex h, nat_of_int (int_of_string n))
  | [id; "enc"; h] -> AEnc (num id, bytes_of_hex h)
  | [id; "dec"; h] -> ADec (num id, bytes_of_hex h)
  | [id; "swap"] -> ASwap (num id)
  | [id; "clear"] -> AClear (num id)
  | [id; "setiv"; h] -> ASetIV (num id, bytes_of_hex h)
  | [id; "setctrsize"; n] -> ASetCtrSize (num id, nat_of_int (int_of_string n))
  | [id; "crypt"; h] -> ACrypt (num id, bytes_of_hex h)
  | _ -> failwith ("bad arduino line: " ^ String.concat " " toks)
let arduino_main file =
  let ic = open_in file in
  let w = ref [] and ln = ref 0 in
  (try while true do
      let line = String.trim (input_line ic) in
      incr ln;
      if line <> "" && line.[0] <> '#' then begin
        let o = aparse (List.map subst (String.split_on_char ' ' line)) in
        let (w', ev) = astep !w o in
        w := w';
        (match o, ev with
         | ANew _, _ -> ()
         | _, ARet b -> Printf.printf "%d ret %d\n" !ln (if b then 1 else 0)
         | _, AOut o -> Hashtbl.replace saved !ln (hex_of_bytes o); Printf.printf "%d out %s\n" !ln (hex_of_bytes o)
         | _, ADone -> Printf.printf "%d done\n" !ln
         | _, ABad -> Printf.printf "%d MODEL-UNDEFINED\n" !ln);
        flush stdout
      end
    done with End_of_file -> ())

(* ---- tool mode: model --tool ctr|ecb|tweak <bs> <keyhex> <twhex|-> <dec 0|1> <batch> <infile> ----
   prints "none" (non-zero exit, no output file) or the hex of the output file *)
let tool_main a =
  let kind = a.(2) and bs = int_of_string a.(3) and key = bytes_of_hex a.(4) and tw = buf_of_hex a.(5)
  and dec = a.(6) = "1" and batch = nat_of_int (int_of_string a.(7)) in
  let ic = open_in_bin a.(8) in
  let n = in_channel_length ic in
  let file = List.init n (fun _ -> byte_of_int (input_byte ic)) in
  let r = match kind, bs with
    | "ctr", 16 -> tool_ctr128 batch key tw file
    | "ctr", 8 -> tool_ctr64 batch key tw file
    | "ecb", 16 -> tool_ecb128 (batch <> S O) (nat_of_int (if int_of_string a.(7) = 8 then 128 else 64)) dec key file
    | "ecb", 8 -> tool_ecb64 (batch <> S O) (nat_of_int 64) dec key file
    | "tweak", 16 -> tool_tweak128 dec key tw file
    | "tweak", 8 -> tool_tweak64 dec key tw file
    | _ -> failwith "bad tool" in
  (match r with None -> print_string "none\n" | Some o -> print_string (hex_of_bytes o ^ "\n"))

(* usage: model <script> [has128 has256 maxleaf l1ecx l1edx l7ebx0 l7ebxN xcr0]
   — the build switches of the library under test and the real CPU as the
   driver's `cpuinfo` mode reports it (hex) *)
let () =
  if Array.length Sys.argv > 2 && Sys.argv.(1) = "--arduino" then (arduino_main Sys.argv.(2); exit 0);
  if Array.length Sys.argv > 8 && Sys.argv.(1) = "--tool" then (tool_main Sys.argv; exit 0);
  let ic = if Array.length Sys.argv > 1 && Sys.argv.(1) <> "-" then open_in Sys.argv.(1) else stdin in
  let arg i d = if Array.length Sys.argv > i then Sys.argv.(i) else d in
  let bld = { has128 = arg 2 "1" = "1"; has256 = arg 3 "1" = "1" } in
  let real = { max_leaf = num_of_hex (arg 4 "d"); l1_ecx = num_of_hex (arg 5 "7ffafbff");
               l1_edx = num_of_hex (arg 6 "bfebfbff"); l7_ebx0 = num_of_hex (arg 7 "20");
               l7_ebxN = num_of_hex (arg 8 "0"); xcr0 = num_of_hex (arg 9 "7"); oor_ebx = N0 } in
  let w = ref (init_world bld real) in
  let ln = ref 0 in
  (try
    while true do
      let line = input_line ic in
      incr ln;
      let line = String.trim line in
      if line <> "" && line.[0] <> '#' then begin
        match parse (List.map subst (String.split_on_char ' ' line)) with
        | None -> ()
        | Some o ->
            let (w', evs) = step !w o in
            w := w';
            print_events !ln evs;
            flush stdout
      end
    done
  with End_of_file -> ());
  print_string "end canaries ok\n"
