// arduino_driver.cpp — script driver for the Arduino port (arduino/libraries/Skinny), compiled with the host
// g++ (portable C++ path; the AVR assembly is not reachable here).  Script language (one op per line):
//   new <cls> <id>           cls: s128_128 s128_256 s128_384 s128_256t s128_384t s64_64 s64_128 s64_192 s64_128t
//                                 s64_192t mantis8, and ctr_<cls> for CTR<cls> with a 128-bit block class
//   <id> setkey <hex>        -> ret 0|1          <id> settweak <hex|-> <len> -> ret 0|1
//   <id> enc <hex> | dec <hex> -> out <hex>      <id> swap | clear -> done
//   <id> setiv <hex> -> ret  <id> setctrsize <n> -> ret   <id> crypt <hex|.> -> out <hex|.>     (CTR objects)
// Result lines are prefixed with the 1-based line number, as harness/driver.c does.
#include <stdio.h>
#include <stdlib.h>
#include <string.h>
#include <string>
#include <vector>
#include <map>
#include "Skinny128.h"
#include "Skinny64.h"
#include "Mantis8.h"
#include "CTR.h"

typedef std::vector<uint8_t> Bytes;
static unsigned long line_no;

static int hexval(int c) { return (c >= '0' && c <= '9') ? c - '0' : (c >= 'a' && c <= 'f') ? c - 'a' + 10 : -1; }
static bool parse_hex(const std::string &s, Bytes &out, bool &null)
{
    out.clear(); null = false;
    if (s == "-") { null = true; return true; }
    if (s == ".") return true;
    if (s.size() % 2) return false;
    for (size_t i = 0; i < s.size(); i += 2) {
        int h = hexval(s[i]), l = hexval(s[i + 1]);
        if (h < 0 || l < 0) return false;
        out.push_back((uint8_t)(h * 16 + l));
    }
    return true;
}
static void put_hex(const uint8_t *p, size_t n)
{
    if (!n) { fputs(".", stdout); return; }
    for (size_t i = 0; i < n; i++) printf("%02x", p[i]);
}
static void die(const char *m) { fprintf(stderr, "arduino_driver: line %lu: %s\n", line_no, m); exit(2); }

struct Obj {
    BlockCipher *bc; Skinny128_Tweaked *t128; Skinny64_Tweaked *t64; Mantis8 *m8; CTRCommon *ctr;
    Obj() : bc(0), t128(0), t64(0), m8(0), ctr(0) {}
};
static std::map<int, Obj> objs;

template <typename T> static Obj mk_plain() { Obj o; o.bc = new T(); return o; }
template <typename T> static Obj mk_t128() { Obj o; T *p = new T(); o.bc = p; o.t128 = p; return o; }
template <typename T> static Obj mk_t64() { Obj o; T *p = new T(); o.bc = p; o.t64 = p; return o; }
template <typename T> static Obj mk_ctr() { Obj o; o.ctr = new CTR<T>(); return o; }

static Obj make(const std::string &cls)
{
    if (cls == "s128_128") return mk_plain<Skinny128_128>();
    if (cls == "s128_256") return mk_plain<Skinny128_256>();
    if (cls == "s128_384") return mk_plain<Skinny128_384>();
    if (cls == "s128_256t") return mk_t128<Skinny128_256_Tweaked>();
    if (cls == "s128_384t") return mk_t128<Skinny128_384_Tweaked>();
    if (cls == "s64_64") return mk_plain<Skinny64_64>();
    if (cls == "s64_128") return mk_plain<Skinny64_128>();
    if (cls == "s64_192") return mk_plain<Skinny64_192>();
    if (cls == "s64_128t") return mk_t64<Skinny64_128_Tweaked>();
    if (cls == "s64_192t") return mk_t64<Skinny64_192_Tweaked>();
    if (cls == "mantis8") { Obj o; Mantis8 *p = new Mantis8(); o.bc = p; o.m8 = p; return o; }
    if (cls == "ctr_s128_128") return mk_ctr<Skinny128_128>();
    if (cls == "ctr_s128_256") return mk_ctr<Skinny128_256>();
    if (cls == "ctr_s128_384") return mk_ctr<Skinny128_384>();
    if (cls == "ctr_s128_256t") return mk_ctr<Skinny128_256_Tweaked>();
    if (cls == "ctr_s128_384t") return mk_ctr<Skinny128_384_Tweaked>();
    die("unknown class"); return Obj();
}

/* DRIVER_STACKFILL=<0..255>: before every operation the stack below the caller is filled with that byte: results must not
   depend on it (a class that reads a local it did not initialise sees different garbage in every run) */
static void __attribute__((noinline)) fill_stack(int v)
{
    volatile unsigned char junk[32768];
    for (size_t i = 0; i < sizeof(junk); i++) junk[i] = (unsigned char)v;
}

int main(int argc, char **argv)
{
    FILE *fp = argc > 1 ? fopen(argv[1], "r") : stdin;
    char *line = NULL; size_t cap = 0; ssize_t got;
    if (!fp) { perror(argv[1]); return 2; }
    while ((got = getline(&line, &cap, fp)) >= 0) {
        line_no++;
        if (got && line[got - 1] == '\n') line[--got] = 0;
        if (!got || line[0] == '#') continue;
        std::vector<std::string> t;
        for (char *p = strtok(line, " "); p; p = strtok(NULL, " ")) t.push_back(p);
        if (t.empty()) continue;
        if (t[0] == "new") {
            if (t.size() != 3) die("new <cls> <id>");
            objs[atoi(t[2].c_str())] = make(t[1]);       // objects are never destroyed: fine for a test run
            continue;
        }
        if (t.size() < 2) die("ill-formed line");
        int id = atoi(t[0].c_str());
        if (!objs.count(id)) die("no such object");
        Obj &o = objs[id];
        const std::string &op = t[1];
        { static int sf = -2; if (sf == -2) { const char *e = getenv("DRIVER_STACKFILL"); sf = e ? atoi(e) : -1; } if (sf >= 0) fill_stack(sf); }
        Bytes b; bool null = false;
        if (op == "setkey") {
            if (t.size() != 3 || !parse_hex(t[2], b, null) || null) die("setkey <hex>");
            bool r = o.ctr ? o.ctr->setKey(b.data(), b.size()) : o.bc->setKey(b.data(), b.size());
            printf("%lu ret %d\n", line_no, r ? 1 : 0);
        } else if (op == "settweak") {
            if (t.size() != 4 || !parse_hex(t[2], b, null)) die("settweak <hex|-> <len>");
            size_t len = (size_t)strtoul(t[3].c_str(), NULL, 10);
            if (!null && b.size() < len) b.resize(len, 0);      // never let the library read past the buffer
            bool r;
            const uint8_t *p = null ? (const uint8_t *)0 : b.data();
            if (o.t128) r = o.t128->setTweak(p, len);
            else if (o.t64) r = o.t64->setTweak(p, len);
            else if (o.m8) r = o.m8->setTweak(p, len);
            else { die("object has no tweak"); return 2; }
            printf("%lu ret %d\n", line_no, r ? 1 : 0);
        } else if (op == "enc" || op == "dec") {
            if (t.size() != 3 || !parse_hex(t[2], b, null) || null || !o.bc) die("enc|dec <hexblock>");
            if (b.size() != o.bc->blockSize()) die("wrong block length");
            uint8_t out[16];
            if (op == "enc") o.bc->encryptBlock(out, b.data()); else o.bc->decryptBlock(out, b.data());
            printf("%lu out ", line_no); put_hex(out, b.size()); putchar('\n');
        } else if (op == "swap") {
            if (!o.m8) die("swap needs a mantis8 object");
            o.m8->swapModes(); printf("%lu done\n", line_no);
        } else if (op == "clear") {
            if (o.ctr) o.ctr->clear(); else o.bc->clear();
            printf("%lu done\n", line_no);
        } else if (op == "setiv") {
            if (t.size() != 3 || !parse_hex(t[2], b, null) || null || !o.ctr) die("setiv <hex>");
            printf("%lu ret %d\n", line_no, o.ctr->setIV(b.data(), b.size()) ? 1 : 0);
        } else if (op == "setctrsize") {
            if (t.size() != 3 || !o.ctr) die("setctrsize <n>");
            printf("%lu ret %d\n", line_no, o.ctr->setCounterSize((size_t)strtoul(t[2].c_str(), NULL, 10)) ? 1 : 0);
        } else if (op == "crypt") {
            if (t.size() != 3 || !parse_hex(t[2], b, null) || null || !o.ctr) die("crypt <hex>");
            Bytes out(b.size() + 1);
            if (line_no & 1) {
                /* every other call (odd script lines): output == input, which the class documents as allowed */
                memcpy(out.data(), b.data(), b.size());
                o.ctr->encrypt(out.data(), out.data(), b.size());
            } else {
                o.ctr->encrypt(out.data(), b.data(), b.size());
            }
            printf("%lu out ", line_no); put_hex(out.data(), b.size()); putchar('\n');
        } else die("unknown op");
        fflush(stdout);
    }
    free(line);
    return 0;
}
