#!/bin/sh
# Build libskinny.a (with the verification hooks) from a copy of the skinny-c
# sources and link the script driver against it.
#
# usage: build_driver.sh <repo_src_copy_dir> <out_dir> [CC] [extra cflags...]
#
#   <repo_src_copy_dir>  scratch copy of the repository holding src/, include/
#                        and options.mak (it is built in place)
#   <out_dir>            receives the executable "driver"
#   CC                   compiler, default gcc
#   extra cflags         appended to the flags of the library and of the driver,
#                        e.g. -fsanitize=address,undefined -g -O1
set -e

if [ $# -lt 2 ]; then
    echo "usage: $0 <repo_src_copy_dir> <out_dir> [CC] [extra cflags...]" >&2
    exit 2
fi

HERE=$(cd "$(dirname "$0")" && pwd)
COPY=$(cd "$1" && pwd)
mkdir -p "$2"
OUT=$(cd "$2" && pwd)
shift 2
CC=gcc
if [ $# -gt 0 ]; then
    CC=$1
    shift
fi
EXTRA="$*"
OPT="-O2"

# The library: the shipped rules of src/Makefile are used, so that the
# per-file -msse2 / -mavx2 flags stay exactly as shipped; only COMMON_CFLAGS
# (normally "-O3 -Wall -Wextra" from options.mak) is replaced.
make -C "$COPY/src" clean
make -C "$COPY/src" CC="$CC" \
    COMMON_CFLAGS="$OPT -Wall -Wextra -DSKINNY_C_VERIF $EXTRA" libskinny.a

# The driver.
# shellcheck disable=SC2086
"$CC" -std=gnu99 $OPT -Wall -Wextra $EXTRA \
    -I"$COPY/include" -I"$COPY/src" \
    -o "$OUT/driver" "$HERE/driver.c" "$COPY/src/libskinny.a" \
    -Wl,--wrap=calloc -Wl,--wrap=free

echo "built $OUT/driver"
