/*
 * driver.c - script-driven test driver for the skinny-c library.
 *
 * Reads an operation script (see SCRIPT.md) from argv[1] or stdin and prints
 * one result line per operation.  Link against a libskinny.a compiled with
 * -DSKINNY_C_VERIF, using -Wl,--wrap=calloc -Wl,--wrap=free.
 */
#define _GNU_SOURCE
#include <errno.h>
#include <signal.h>
#include <stdarg.h>
#include <stdint.h>
#include <stdio.h>
#include <stdlib.h>
#include <string.h>
#include <unistd.h>

#include "skinny128-cipher.h"
#include "skinny128-parallel.h"
#include "skinny64-cipher.h"
#include "skinny64-parallel.h"
#include "mantis-cipher.h"
#include "mantis-parallel.h"
#include "skinny128-ctr-internal.h"
#include "skinny64-ctr-internal.h"
#include "mantis-ctr-internal.h"

int _skinny_has_vec128(void);
int _skinny_has_vec256(void);

/* With AddressSanitizer the canary regions are additionally poisoned, so
   that over-reads by the library are reported as well as over-writes. */
#if defined(__SANITIZE_ADDRESS__)
#define DRV_ASAN 1
#elif defined(__has_feature)
#if __has_feature(address_sanitizer)
#define DRV_ASAN 1
#endif
#endif
#ifdef DRV_ASAN
#include <sanitizer/asan_interface.h>
#define POISON(p, n)   ASAN_POISON_MEMORY_REGION((p), (n))
#define UNPOISON(p, n) ASAN_UNPOISON_MEMORY_REGION((p), (n))
#else
#define POISON(p, n)   ((void)(p), (void)(n))
#define UNPOISON(p, n) ((void)(p), (void)(n))
#endif

#define CANARY_SIZE 32
#define CANARY_BYTE 0xC5
#define OUT_FILL    0xEE
#define MAX_OBJS    1000
#define NULL_IN_CAP 65536   /* output buffer size limit when the input is NULL */

/* ------------------------------------------------------------------ */
/* Output helpers                                                     */
/* ------------------------------------------------------------------ */

static volatile unsigned long cur_line;     /* 1-based script line number */

static void die(const char *fmt, ...)
{
    va_list va;
    fflush(stdout);
    fprintf(stderr, "driver: line %lu: ", (unsigned long)cur_line);
    va_start(va, fmt);
    vfprintf(stderr, fmt, va);
    va_end(va);
    fputc('\n', stderr);
    fflush(stderr);
    _exit(2);       /* no atexit processing: buffers of the current op are still allocated */
}

static void line_begin(void) { printf("%lu ", (unsigned long)cur_line); }
static void line_end(void)   { putchar('\n'); fflush(stdout); }

static void emit(const char *fmt, ...)
{
    va_list va;
    line_begin();
    va_start(va, fmt);
    vprintf(fmt, va);
    va_end(va);
    line_end();
}

static void put_hex_raw(const void *ptr, size_t n)
{
    static const char digits[] = "0123456789abcdef";
    const unsigned char *p = ptr;
    size_t i;
    for (i = 0; i < n; i++) {
        putchar(digits[p[i] >> 4]);
        putchar(digits[p[i] & 15]);
    }
}

static void put_hex(const void *ptr, size_t n)     /* "." when empty */
{
    if (n == 0)
        putchar('.');
    else
        put_hex_raw(ptr, n);
}

static void *xmalloc(size_t n)
{
    void *p = malloc(n ? n : 1);
    if (!p) {
        fprintf(stderr, "driver: out of memory\n");
        exit(2);
    }
    return p;
}

/* ------------------------------------------------------------------ */
/* Crash handler                                                      */
/* ------------------------------------------------------------------ */

static void on_crash(int sig)
{
    char buf[64];
    char num[24];
    const char *name;
    size_t pos = 0, n = 0;
    unsigned long v = cur_line;
    switch (sig) {
    case SIGSEGV: name = "SIGSEGV"; break;
    case SIGBUS:  name = "SIGBUS";  break;
    case SIGILL:  name = "SIGILL";  break;
    case SIGFPE:  name = "SIGFPE";  break;
    case SIGABRT: name = "SIGABRT"; break;
    default:      name = "SIG?";    break;
    }
    do { num[n++] = (char)('0' + v % 10); v /= 10; } while (v);
    while (n) buf[pos++] = num[--n];
    memcpy(buf + pos, " crash ", 7); pos += 7;
    n = strlen(name);
    memcpy(buf + pos, name, n); pos += n;
    buf[pos++] = '\n';
    if (write(1, buf, pos) < 0) { /* nothing more can be done */ }
    _exit(3);
}

/* ------------------------------------------------------------------ */
/* Allocator wrapping (calloc / free as used by the library)          */
/* ------------------------------------------------------------------ */

void *__real_calloc(size_t nmemb, size_t size);
void __real_free(void *ptr);
void *__wrap_calloc(size_t nmemb, size_t size);
void __wrap_free(void *ptr);

typedef struct {
    void *ptr;
    void *base;         /* what the real allocator returned (ptr = base + placement shift) */
    size_t size;        /* nmemb * size as requested */
    int size_known;     /* 0 if nmemb * size overflowed */
    int live;
    unsigned long ordinal;
} AllocRec;

static AllocRec *recs;
static size_t nrecs, caprecs;
static unsigned long next_ordinal = 1;
static unsigned long fail_in;           /* k-th logged request from now fails; 0 = off */
static volatile int logging;            /* non-zero while a library call is in progress */

/* Placement perturbation: malloc guarantees 16-byte alignment only, so the blocks handed to the library cycle through the
   residues 0, 16, 32, 48 modulo 64 (DRIVER_ALLOCSHIFT=0 switches it off).  Code that silently assumes a
   32- or 64-byte aligned calloc result sees every case. */
static unsigned long place_count;
static void *place_calloc(size_t nmemb, size_t size, void **base)
{
    static int shift_on = -1;
    size_t total, shift;
    unsigned char *b;
    if (shift_on < 0) {
        const char *e = getenv("DRIVER_ALLOCSHIFT");
        shift_on = !(e && e[0] == '0');
    }
    if (!shift_on || (size != 0 && nmemb > (SIZE_MAX - 128) / size)) {
        *base = __real_calloc(nmemb, size);
        return *base;
    }
    total = nmemb * size;
    b = __real_calloc(1, total + 128);
    if (!b) { *base = NULL; return NULL; }
    *base = b;
    /* first a 64-byte boundary, then the residue of this request */
    shift = (64 - ((size_t)(uintptr_t)b & 63)) & 63;
    shift += 16 * (place_count++ & 3);
    return b + shift;
}

void *__wrap_calloc(size_t nmemb, size_t size)
{
    void *p = NULL, *base = NULL;
    if (!logging)
        return __real_calloc(nmemb, size);
    logging = 0;
    if (fail_in != 0 && --fail_in == 0) {
        emit("allocfail");
        errno = ENOMEM;
    } else if ((p = place_calloc(nmemb, size, &base)) == NULL) {
        emit("allocfail");
        errno = ENOMEM;
    } else {
        AllocRec *r;
        if (nrecs == caprecs) {
            caprecs = caprecs ? caprecs * 2 : 64;
            recs = realloc(recs, caprecs * sizeof(AllocRec));
            if (!recs) {
                fprintf(stderr, "driver: out of memory\n");
                exit(2);
            }
        }
        r = &recs[nrecs++];
        r->ptr = p;
        r->base = base;
        r->size_known = (size == 0 || nmemb <= SIZE_MAX / size);
        r->size = r->size_known ? nmemb * size : 0;
        r->live = 1;
        r->ordinal = next_ordinal++;
        emit("alloc %lu", r->ordinal);
    }
    logging = 1;
    return p;
}

void __wrap_free(void *ptr)
{
    size_t i;
    AllocRec *live = NULL, *dead = NULL;
    if (!logging) {
        __real_free(ptr);
        return;
    }
    logging = 0;
    if (!ptr) {
        emit("free null");
        logging = 1;
        return;
    }
    for (i = nrecs; i-- > 0 && !live; ) {
        if (recs[i].ptr == ptr) {
            if (recs[i].live)
                live = &recs[i];
            else if (!dead)
                dead = &recs[i];
        }
    }
    if (live) {
        const char *state = "unknown";
        if (live->size_known) {
            const unsigned char *b = ptr;
            state = "zero";
            for (i = 0; i < live->size; i++) {
                if (b[i] != 0) { state = "nonzero"; break; }
            }
        }
        emit("free %lu %s", live->ordinal, state);
        live->live = 0;
        __real_free(live->base);
    } else if (dead) {
        /* Block was already freed: contents cannot be inspected and the
           pointer must not reach the real free() a second time */
        emit("free %lu unknown", dead->ordinal);
    } else {
        emit("free wild");
    }
    logging = 1;
}

/* DRIVER_STACKFILL=<0..255>: before every library call the stack below the
   caller is filled with that byte (results must not depend on it) */
static int stackfill = -1;
static void __attribute__((noinline)) fill_stack(int v)
{
    volatile unsigned char junk[49152];
    size_t i;
    for (i = 0; i < sizeof(junk); i++)
        junk[i] = (unsigned char)v;
}

/* DRIVER_CT=1 (run under valgrind memcheck): key, tweak, counter and data
   bytes are marked undefined before the library sees them, so memcheck
   reports every branch and every address that depends on them */
#ifdef DRIVER_WITH_VALGRIND
#include <valgrind/memcheck.h>
static int ct_mode;
#define CT_SECRET(p, n) do { if (ct_mode && (p) && (n)) VALGRIND_MAKE_MEM_UNDEFINED((p), (n)); } while (0)
#define CT_PUBLIC(p, n) do { if (ct_mode && (p) && (n)) VALGRIND_MAKE_MEM_DEFINED((p), (n)); } while (0)
#else
#define CT_SECRET(p, n) ((void)0)
#define CT_PUBLIC(p, n) ((void)0)
#endif

/* Run a library call with allocator logging switched on */
#define LIB(stmt) do { if (stackfill >= 0) fill_stack(stackfill); \
                       logging = 1; stmt; logging = 0; } while (0)

/* ------------------------------------------------------------------ */
/* CPUID / XGETBV hooks                                               */
/* ------------------------------------------------------------------ */

enum { BACKEND_DEF, BACKEND_V128, BACKEND_V256 };
static int cfg_backend = BACKEND_V256;
static unsigned cfg_ambient;
static int sim_active;
static unsigned sim_maxleaf, sim_l1ecx, sim_l1edx, sim_l7ebx0, sim_l7ebxN, sim_xcr0, sim_oorebx;

void _skinny_verif_cpuid(unsigned leaf, int has_subleaf, unsigned subleaf, unsigned regs[4]);
unsigned _skinny_verif_xgetbv(unsigned index);

static void real_cpuid(unsigned leaf, unsigned subleaf, unsigned regs[4])
{
#if defined(__x86_64__) || defined(__i386__)
    unsigned a, b, c, d;
    __asm__ __volatile__ ("cpuid"
                          : "=a" (a), "=b" (b), "=c" (c), "=d" (d)
                          : "0" (leaf), "2" (subleaf));
    regs[0] = a; regs[1] = b; regs[2] = c; regs[3] = d;
#else
    (void)leaf; (void)subleaf;
    regs[0] = regs[1] = regs[2] = regs[3] = 0;
#endif
}

void _skinny_verif_cpuid(unsigned leaf, int has_subleaf, unsigned subleaf, unsigned regs[4])
{
    unsigned ecx = has_subleaf ? subleaf : cfg_ambient;
    if (sim_active) {
        regs[0] = regs[1] = regs[2] = regs[3] = 0;
        if (leaf > sim_maxleaf) {
            regs[1] = sim_oorebx;
        } else if (leaf == 0) {
            regs[0] = sim_maxleaf;
        } else if (leaf == 1) {
            regs[2] = sim_l1ecx;
            regs[3] = sim_l1edx;
        } else if (leaf == 7) {
            regs[1] = (ecx == 0) ? sim_l7ebx0 : sim_l7ebxN;
        }
        return;
    }
    real_cpuid(leaf, ecx, regs);
    if (cfg_backend == BACKEND_DEF && leaf == 1)
        regs[3] &= ~(1u << 26);                 /* no SSE2 */
    if (cfg_backend != BACKEND_V256 && leaf == 7)
        regs[1] &= ~(1u << 5);                  /* no AVX2, in every sub-leaf */
}

static unsigned _skinny_verif_xgetbv_real(void)
{
    int saved = sim_active;
    unsigned v;
    sim_active = 0;
    v = _skinny_verif_xgetbv(0);
    sim_active = saved;
    return v;
}

unsigned _skinny_verif_xgetbv(unsigned index)
{
    if (sim_active)
        return index == 0 ? sim_xcr0 : 0;
#if defined(__x86_64__) || defined(__i386__)
    {
        unsigned regs[4], lo, hi;
        real_cpuid(1, 0, regs);
        if ((regs[2] & (1u << 27)) == 0)        /* OSXSAVE clear: XGETBV would fault */
            return 0;
        __asm__ __volatile__ (".byte 0x0f, 0x01, 0xd0"
                              : "=a" (lo), "=d" (hi) : "c" (index));
        (void)hi;
        return lo;
    }
#else
    return 0;
#endif
}

/* ------------------------------------------------------------------ */
/* Arenas: exact-size regions between canaries                        */
/* ------------------------------------------------------------------ */

typedef struct {
    unsigned char *raw;     /* malloc'ed block, NULL if the arena is unused */
    size_t rawsize;
    unsigned char *buf;     /* payload; (buf - off) is 32-byte aligned */
    size_t len;
} Arena;

static char bad_desc[200];  /* first canary failure seen, "" if none */

static void arena_guard(const Arena *a)
{
    POISON(a->raw, (size_t)(a->buf - a->raw));
    POISON(a->buf + a->len, (size_t)(a->raw + a->rawsize - (a->buf + a->len)));
}

static void arena_unguard(const Arena *a)
{
    UNPOISON(a->raw, a->rawsize);
}

/* Payload of "len" bytes starting "off" (0..31) bytes after a 32-byte aligned
   address, everything else in the block being canary (>= 32 bytes each side) */
static void arena_new(Arena *a, size_t len, unsigned off)
{
    uintptr_t base, aligned;
    a->rawsize = CANARY_SIZE + 31 + off + len + CANARY_SIZE;
    a->raw = xmalloc(a->rawsize);
    memset(a->raw, CANARY_BYTE, a->rawsize);
    base = (uintptr_t)a->raw;
    aligned = (base + CANARY_SIZE + 31) & ~(uintptr_t)31;
    a->buf = a->raw + (aligned - base) + off;
    a->len = len;
    arena_guard(a);
}

/* Returns 1 if all canary bytes are intact, else records the first failure */
static int arena_check(const Arena *a, const char *what, int id)
{
    const unsigned char *p, *end = a->raw + a->rawsize;
    int ok = 1;
    arena_unguard(a);
    for (p = a->raw; p < end; p++) {
        if (p == a->buf) {
            p += a->len;
            if (p == end)
                break;
        }
        if (*p != CANARY_BYTE) {
            ok = 0;
            if (!bad_desc[0]) {
                long rel = (p < a->buf) ? -(long)(a->buf - p) : (long)(p - (a->buf + a->len));
                char idstr[16] = "";
                if (id >= 0)
                    snprintf(idstr, sizeof(idstr), " %d", id);
                snprintf(bad_desc, sizeof(bad_desc),
                         "line %lu %s%s %s canary offset %ld value %02x",
                         (unsigned long)cur_line, what, idstr,
                         p < a->buf ? "leading" : "trailing", rel, (unsigned)*p);
                fflush(stdout);
                fprintf(stderr, "driver: canary damaged: %s\n", bad_desc);
            }
            break;
        }
    }
    arena_guard(a);
    return ok;
}

static void arena_free(Arena *a)
{
    if (a->raw) {
        arena_unguard(a);
        free(a->raw);
    }
    a->raw = NULL;
    a->buf = NULL;
}

static void arena_done(Arena *a, const char *what)     /* check, then free */
{
    if (a->raw) {
        arena_check(a, what, -1);
        arena_free(a);
    }
}

/* ------------------------------------------------------------------ */
/* Token parsing                                                      */
/* ------------------------------------------------------------------ */

typedef struct {
    unsigned char *p;   /* malloc'ed copy of the bytes (never NULL) */
    size_t len;
    int null;           /* token was "-" */
} Bytes;

/* outputs of earlier lines, for "@<lineno>" tokens */
static char **saved_out;
static size_t saved_cap;

static void save_out(const void *ptr, size_t n)
{
    static const char digits[] = "0123456789abcdef";
    const unsigned char *b = ptr;
    char *h;
    size_t i;
    if (cur_line >= saved_cap) {
        size_t ncap = (cur_line + 1) * 2, j;
        saved_out = realloc(saved_out, ncap * sizeof(char *));
        if (!saved_out)
            die("out of memory");
        for (j = saved_cap; j < ncap; j++)
            saved_out[j] = NULL;
        saved_cap = ncap;
    }
    free(saved_out[cur_line]);
    h = xmalloc(2 * n + 2);
    for (i = 0; i < n; i++) {
        h[2 * i] = digits[b[i] >> 4];
        h[2 * i + 1] = digits[b[i] & 15];
    }
    h[2 * n] = '\0';
    if (n == 0)
        strcpy(h, ".");
    saved_out[cur_line] = h;
}

static int hexval(int c)
{
    if (c >= '0' && c <= '9') return c - '0';
    if (c >= 'a' && c <= 'f') return c - 'a' + 10;
    return -1;
}

static Bytes parse_hex(const char *s)
{
    Bytes b;
    size_t n = strlen(s), i;
    b.null = 0;
    b.len = 0;
    if (s[0] == '@') {
        /* the output bytes of an earlier line */
        unsigned long ln = strtoul(s + 1, NULL, 10);
        if (ln == 0 || ln >= saved_cap || !saved_out[ln])
            die("no saved output for '%s'", s);
        s = saved_out[ln];
        n = strlen(s);
    }
    if (!strcmp(s, "-")) {
        b.null = 1;
    } else if (strcmp(s, ".") != 0) {
        if (n == 0 || (n & 1))
            die("bad hex string '%s'", s);
        b.len = n / 2;
    }
    b.p = xmalloc(b.len);
    for (i = 0; i < b.len; i++) {
        int hi = hexval(s[2 * i]), lo = hexval(s[2 * i + 1]);
        if (hi < 0 || lo < 0)
            die("bad hex string '%s'", s);
        b.p[i] = (unsigned char)(hi * 16 + lo);
    }
    return b;
}

static void bytes_free(Bytes *b) { free(b->p); b->p = NULL; }

static uint64_t parse_u64(const char *s)
{
    uint64_t v = 0;
    const char *p = s;
    if (!*p)
        die("empty number");
    for (; *p; p++) {
        if (*p < '0' || *p > '9')
            die("bad decimal number '%s'", s);
        if (v > (UINT64_MAX - (unsigned)(*p - '0')) / 10)
            die("number too large '%s'", s);
        v = v * 10 + (unsigned)(*p - '0');
    }
    return v;
}

static unsigned parse_u32(const char *s)
{
    uint64_t v = parse_u64(s);
    if (v > 0xFFFFFFFFu)
        die("number does not fit in 32 bits '%s'", s);
    return (unsigned)v;
}

static size_t parse_size(const char *s)
{
    uint64_t v = parse_u64(s);
    if (v > SIZE_MAX)
        die("number does not fit in size_t '%s'", s);
    return (size_t)v;
}

static int parse_int(const char *s)     /* optional leading '-' */
{
    int neg = (s[0] == '-');
    uint64_t v = parse_u64(s + neg);
    if (v > 0x7FFFFFFFu)
        die("integer out of range '%s'", s);
    return neg ? -(int)v : (int)v;
}

static unsigned parse_hex32(const char *s)
{
    size_t n = strlen(s), i;
    unsigned v = 0;
    if (n == 0 || n > 8)
        die("bad hex number '%s'", s);
    for (i = 0; i < n; i++) {
        int d = hexval(s[i]);
        if (d < 0)
            die("bad hex number '%s'", s);
        v = (v << 4) | (unsigned)d;
    }
    return v;
}

/* Trailing options of the data ops */
#define O_OVL     1u
#define O_AI      2u
#define O_AO      4u
#define O_INPLACE 8u
#define O_OUTNULL 16u

typedef struct {
    unsigned seen;      /* O_* bits present */
    int ovl;
    unsigned ai, ao;
} Opts;

static unsigned parse_align(const char *s)
{
    unsigned v = parse_u32(s);
    if (v > 31)
        die("alignment offset out of range '%s'", s);
    return v;
}

static void parse_opts(char **t, int nt, int from, unsigned allowed, Opts *o)
{
    int i;
    memset(o, 0, sizeof(*o));
    for (i = from; i < nt; i++) {
        unsigned bit;
        if (!strncmp(t[i], "ovl=", 4))      { bit = O_OVL; o->ovl = parse_int(t[i] + 4); }
        else if (!strncmp(t[i], "ai=", 3))  { bit = O_AI; o->ai = parse_align(t[i] + 3); }
        else if (!strncmp(t[i], "ao=", 3))  { bit = O_AO; o->ao = parse_align(t[i] + 3); }
        else if (!strcmp(t[i], "inplace"))  bit = O_INPLACE;
        else if (!strcmp(t[i], "outnull"))  bit = O_OUTNULL;
        else { die("unknown option '%s'", t[i]); return; }
        if (!(allowed & bit) || (o->seen & bit))
            die("option '%s' not allowed here or repeated", t[i]);
        o->seen |= bit;
    }
    if ((o->seen & O_INPLACE) && (o->seen & O_OUTNULL))
        die("inplace and outnull are mutually exclusive");
}

/* ------------------------------------------------------------------ */
/* Data buffers for one op                                            */
/* ------------------------------------------------------------------ */

/* Exact-size copy of "b" at alignment offset "off"; NULL for a "-" token */
static unsigned char *buf_from(Arena *a, const Bytes *b, unsigned off)
{
    a->raw = NULL;
    a->buf = NULL;
    if (b->null)
        return NULL;
    arena_new(a, b->len, off);
    if (b->len)
        memcpy(a->buf, b->p, b->len);
    return a->buf;
}

typedef struct {
    Arena ain, aout;
    unsigned char *in, *out;
    size_t outlen;      /* bytes addressable at "out" */
} IO;

/* Set up input and output according to the options; "bs" is only used to
   range-check ovl= */
static void io_setup(IO *io, const Bytes *in, size_t outlen, const Opts *o, size_t bs)
{
    io->aout.raw = NULL;
    io->aout.buf = NULL;
    io->outlen = outlen;
    if ((o->seen & O_OVL) && o->ovl != 0) {
        int d = o->ovl;
        size_t ad = (size_t)(d < 0 ? -d : d);
        unsigned off;
        if (in->null || ad >= bs)
            die("ovl out of range");
        /* input at alignment offset ai, output d bytes further on */
        off = (d < 0) ? (unsigned)(((int)o->ai + d) % 32 + 32) % 32 : o->ai;
        arena_new(&io->ain, in->len + ad, off);
        memset(io->ain.buf, OUT_FILL, io->ain.len);
        io->in = io->ain.buf + (d < 0 ? ad : 0);
        io->out = io->ain.buf + (d < 0 ? 0 : ad);
        memcpy(io->in, in->p, in->len);
        io->outlen = in->len;
    } else if (o->seen & (O_OVL | O_INPLACE)) {
        io->in = buf_from(&io->ain, in, o->ai);
        io->out = io->in;
        io->outlen = in->null ? 0 : in->len;
    } else {
        io->in = buf_from(&io->ain, in, o->ai);
        io->out = NULL;
        if (!(o->seen & O_OUTNULL)) {
            arena_new(&io->aout, outlen, o->ao);
            memset(io->aout.buf, OUT_FILL, outlen);
            io->out = io->aout.buf;
        }
    }
}

static void io_done(IO *io)
{
    arena_done(&io->ain, "input buffer");
    arena_done(&io->aout, "output buffer");
}

/* ------------------------------------------------------------------ */
/* Uniform wrappers around the library API                            */
/* ------------------------------------------------------------------ */

/* All library entry points are called through wrappers of a few uniform
   types, so that no function pointer is ever cast to another type. */
typedef int  (*SetFn)(void *obj, const void *data, unsigned n, unsigned rounds, int mode);
typedef void (*EcbFn)(void *out, const void *in, const void *tweak, const void *ks);
typedef int  (*BulkFn)(void *out, const void *in, const void *tweak, size_t n, void *obj);
typedef int  (*InitFn)(void *obj);
typedef void (*VoidFn)(void *obj);
typedef const void *(*VtFn)(const void *obj);
typedef size_t (*SizeFn)(const void *obj);
typedef void (*ImgFn)(const void *obj, int tweaked);

#define UNUSED2(a, b) do { (void)(a); (void)(b); } while (0)

#define DEF_CTR_COMMON(P, T) \
static int P##_w_init(void *o) { return P##_init((T *)o); } \
static void P##_w_cleanup(void *o) { P##_cleanup((T *)o); } \
static int P##_w_settweak(void *o, const void *d, unsigned n, unsigned r, int m) \
    { UNUSED2(r, m); return P##_set_tweak((T *)o, d, n); } \
static int P##_w_setctr(void *o, const void *d, unsigned n, unsigned r, int m) \
    { UNUSED2(r, m); return P##_set_counter((T *)o, d, n); } \
static int P##_w_crypt(void *out, const void *in, const void *tw, size_t n, void *o) \
    { (void)tw; return P##_encrypt(out, in, n, (T *)o); } \
static const void *P##_w_vt(const void *o) { return ((const T *)o)->vtable; }

#define DEF_PAR_COMMON(P, T) \
static int P##_w_init(void *o) { return P##_init((T *)o); } \
static void P##_w_cleanup(void *o) { P##_cleanup((T *)o); } \
static const void *P##_w_vt(const void *o) { return ((const T *)o)->vtable; } \
static size_t P##_w_psize(const void *o) { return ((const T *)o)->parallel_size; }

#define DEF_SKINNY(N) \
static int skinny##N##_w_setkey(void *o, const void *d, unsigned n, unsigned r, int m) \
    { UNUSED2(r, m); return skinny##N##_set_key((Skinny##N##Key_t *)o, d, n); } \
static int skinny##N##_w_settk(void *o, const void *d, unsigned n, unsigned r, int m) \
    { UNUSED2(r, m); return skinny##N##_set_tweaked_key((Skinny##N##TweakedKey_t *)o, d, n); } \
static int skinny##N##_w_settweak(void *o, const void *d, unsigned n, unsigned r, int m) \
    { UNUSED2(r, m); return skinny##N##_set_tweak((Skinny##N##TweakedKey_t *)o, d, n); } \
static void skinny##N##_w_enc(void *out, const void *in, const void *tw, const void *ks) \
    { (void)tw; skinny##N##_ecb_encrypt(out, in, (const Skinny##N##Key_t *)ks); } \
static void skinny##N##_w_dec(void *out, const void *in, const void *tw, const void *ks) \
    { (void)tw; skinny##N##_ecb_decrypt(out, in, (const Skinny##N##Key_t *)ks); } \
static void skinny##N##_w_img(const void *o, int tweaked) \
{ \
    /* a tweaked key starts with its Skinny##N##Key_t member "ks" */ \
    const Skinny##N##Key_t *ks = (const Skinny##N##Key_t *)o; \
    unsigned i; \
    line_begin(); \
    printf("img %u ", ks->rounds); \
    for (i = 0; i < SKINNY##N##_MAX_ROUNDS; i++) { \
        unsigned char tmp[sizeof(ks->schedule[0])]; \
        memcpy(tmp, &ks->schedule[i], sizeof(tmp)); \
        put_hex_raw(tmp, sizeof(tmp)); \
    } \
    if (tweaked) { \
        putchar(' '); \
        put_hex_raw(((const Skinny##N##TweakedKey_t *)o)->tweak, SKINNY##N##_BLOCK_SIZE); \
    } \
    line_end(); \
} \
DEF_CTR_COMMON(skinny##N##_ctr, Skinny##N##CTR_t) \
static int skinny##N##_ctr_w_setkey(void *o, const void *d, unsigned n, unsigned r, int m) \
    { UNUSED2(r, m); return skinny##N##_ctr_set_key((Skinny##N##CTR_t *)o, d, n); } \
static int skinny##N##_ctr_w_settk(void *o, const void *d, unsigned n, unsigned r, int m) \
    { UNUSED2(r, m); return skinny##N##_ctr_set_tweaked_key((Skinny##N##CTR_t *)o, d, n); } \
DEF_PAR_COMMON(skinny##N##_parallel_ecb, Skinny##N##ParallelECB_t) \
static int skinny##N##_parallel_ecb_w_setkey(void *o, const void *d, unsigned n, unsigned r, int m) \
    { UNUSED2(r, m); return skinny##N##_parallel_ecb_set_key((Skinny##N##ParallelECB_t *)o, d, n); } \
static int skinny##N##_parallel_ecb_w_enc(void *out, const void *in, const void *tw, size_t n, void *o) \
    { (void)tw; return skinny##N##_parallel_ecb_encrypt(out, in, n, (const Skinny##N##ParallelECB_t *)o); } \
static int skinny##N##_parallel_ecb_w_dec(void *out, const void *in, const void *tw, size_t n, void *o) \
    { (void)tw; return skinny##N##_parallel_ecb_decrypt(out, in, n, (const Skinny##N##ParallelECB_t *)o); }

DEF_SKINNY(128)
DEF_SKINNY(64)

/* MANTIS */
static int mantis_w_setkey(void *o, const void *d, unsigned n, unsigned r, int m)
    { return mantis_set_key((MantisKey_t *)o, d, n, r, m); }
static int mantis_w_settweak(void *o, const void *d, unsigned n, unsigned r, int m)
    { UNUSED2(r, m); return mantis_set_tweak((MantisKey_t *)o, d, n); }
static void mantis_w_swap(void *o) { mantis_swap_modes((MantisKey_t *)o); }
static void mantis_w_crypt(void *out, const void *in, const void *tw, const void *ks)
    { (void)tw; mantis_ecb_crypt(out, in, (const MantisKey_t *)ks); }
static void mantis_w_cryptt(void *out, const void *in, const void *tw, const void *ks)
    { mantis_ecb_crypt_tweaked(out, in, tw, (const MantisKey_t *)ks); }
static void mantis_w_img(const void *o, int tweaked)
{
    const MantisKey_t *ks = (const MantisKey_t *)o;
    unsigned char tmp[32];
    (void)tweaked;
    memcpy(tmp, &ks->k0, 8);
    memcpy(tmp + 8, &ks->k0prime, 8);
    memcpy(tmp + 16, &ks->k1, 8);
    memcpy(tmp + 24, &ks->tweak, 8);
    line_begin();
    printf("img %u ", ks->rounds);
    put_hex_raw(tmp, sizeof(tmp));
    line_end();
}
DEF_CTR_COMMON(mantis_ctr, MantisCTR_t)
static int mantis_ctr_w_setkey(void *o, const void *d, unsigned n, unsigned r, int m)
    { (void)m; return mantis_ctr_set_key((MantisCTR_t *)o, d, n, r); }
DEF_PAR_COMMON(mantis_parallel_ecb, MantisParallelECB_t)
static int mantis_parallel_ecb_w_setkey(void *o, const void *d, unsigned n, unsigned r, int m)
    { return mantis_parallel_ecb_set_key((MantisParallelECB_t *)o, d, n, r, m); }
static void mantis_parallel_ecb_w_swap(void *o)
    { mantis_parallel_ecb_swap_modes((MantisParallelECB_t *)o); }
static int mantis_parallel_ecb_w_crypt(void *out, const void *in, const void *tw, size_t n, void *o)
    { return mantis_parallel_ecb_crypt(out, in, tw, n, (const MantisParallelECB_t *)o); }

/* One cipher family: Skinny-128, Skinny-64 or MANTIS */
typedef struct {
    size_t bs;
    /* plain / tweaked key schedules (k*, t*, mk) */
    SetFn setkey, settk, settweak;
    int key_extra;              /* extra numeric arguments of setkey (rounds, mode) */
    EcbFn enc, dec, crypt, cryptt;
    VoidFn swap;
    ImgFn img;
    /* CTR mode (c*, mc) */
    InitFn c_init; VoidFn c_cleanup;
    SetFn c_setkey, c_settk, c_settweak, c_setctr;
    int c_key_extra;
    BulkFn c_crypt;
    VtFn c_vt;
    const void *vt128, *vt256;
    /* parallel ECB (p*, mp) */
    InitFn p_init; VoidFn p_cleanup, p_swap;
    SetFn p_setkey;
    int p_key_extra;
    BulkFn p_enc, p_dec, p_crypt;
    VtFn p_vt; SizeFn p_psize;
    int p_has_v256;
} Fam;

#define SKINNY_FAM(N, VT256, HAS256) { \
    SKINNY##N##_BLOCK_SIZE, \
    skinny##N##_w_setkey, skinny##N##_w_settk, skinny##N##_w_settweak, 0, \
    skinny##N##_w_enc, skinny##N##_w_dec, NULL, NULL, NULL, skinny##N##_w_img, \
    skinny##N##_ctr_w_init, skinny##N##_ctr_w_cleanup, \
    skinny##N##_ctr_w_setkey, skinny##N##_ctr_w_settk, skinny##N##_ctr_w_settweak, \
    skinny##N##_ctr_w_setctr, 0, skinny##N##_ctr_w_crypt, skinny##N##_ctr_w_vt, \
    &_skinny##N##_ctr_vec128, VT256, \
    skinny##N##_parallel_ecb_w_init, skinny##N##_parallel_ecb_w_cleanup, NULL, \
    skinny##N##_parallel_ecb_w_setkey, 0, \
    skinny##N##_parallel_ecb_w_enc, skinny##N##_parallel_ecb_w_dec, NULL, \
    skinny##N##_parallel_ecb_w_vt, skinny##N##_parallel_ecb_w_psize, HAS256 }

static const Fam fam128 = SKINNY_FAM(128, &_skinny128_ctr_vec256, 1);
static const Fam fam64 = SKINNY_FAM(64, NULL, 0);
static const Fam fam_mantis = {
    MANTIS_BLOCK_SIZE,
    mantis_w_setkey, NULL, mantis_w_settweak, 2,
    NULL, NULL, mantis_w_crypt, mantis_w_cryptt, mantis_w_swap, mantis_w_img,
    mantis_ctr_w_init, mantis_ctr_w_cleanup,
    mantis_ctr_w_setkey, NULL, mantis_ctr_w_settweak, mantis_ctr_w_setctr, 1,
    mantis_ctr_w_crypt, mantis_ctr_w_vt, &_mantis_ctr_vec128, NULL,
    mantis_parallel_ecb_w_init, mantis_parallel_ecb_w_cleanup, mantis_parallel_ecb_w_swap,
    mantis_parallel_ecb_w_setkey, 2, NULL, NULL, mantis_parallel_ecb_w_crypt,
    mantis_parallel_ecb_w_vt, mantis_parallel_ecb_w_psize, 0
};

/* ------------------------------------------------------------------ */
/* Caller-side objects                                                */
/* ------------------------------------------------------------------ */

enum { CLS_K, CLS_T, CLS_C, CLS_P };

typedef struct {
    const char *name;
    size_t size;
    int cls;
    const Fam *fam;
} Kind;

static const Kind kinds[] = {
    { "k128", sizeof(Skinny128Key_t),         CLS_K, &fam128 },
    { "t128", sizeof(Skinny128TweakedKey_t),  CLS_T, &fam128 },
    { "c128", sizeof(Skinny128CTR_t),         CLS_C, &fam128 },
    { "p128", sizeof(Skinny128ParallelECB_t), CLS_P, &fam128 },
    { "k64",  sizeof(Skinny64Key_t),          CLS_K, &fam64 },
    { "t64",  sizeof(Skinny64TweakedKey_t),   CLS_T, &fam64 },
    { "c64",  sizeof(Skinny64CTR_t),          CLS_C, &fam64 },
    { "p64",  sizeof(Skinny64ParallelECB_t),  CLS_P, &fam64 },
    { "mk",   sizeof(MantisKey_t),            CLS_K, &fam_mantis },
    { "mc",   sizeof(MantisCTR_t),            CLS_C, &fam_mantis },
    { "mp",   sizeof(MantisParallelECB_t),    CLS_P, &fam_mantis },
};
#define NKINDS ((int)(sizeof(kinds) / sizeof(kinds[0])))

typedef struct {
    const Kind *kind;       /* NULL if the id is unused */
    Arena arena;
} Obj;

static Obj objs[MAX_OBJS];

static const Kind *find_kind(const char *name)
{
    int i;
    for (i = 0; i < NKINDS; i++) {
        if (!strcmp(kinds[i].name, name))
            return &kinds[i];
    }
    return NULL;
}

static unsigned parse_obj_id(const char *s)
{
    unsigned id = parse_u32(s);
    if (id >= MAX_OBJS)
        die("object id out of range '%s'", s);
    return id;
}

/* Object pointer for an <obj> token: NULL for "-" */
static void *get_obj(const char *tok, const Kind *kind)
{
    unsigned id;
    if (!strcmp(tok, "-"))
        return NULL;
    id = parse_obj_id(tok);
    if (!objs[id].kind)
        die("object %u does not exist", id);
    if (objs[id].kind != kind)
        die("object %u has kind %s, not %s", id, objs[id].kind->name, kind->name);
    return objs[id].arena.buf;
}

static void check_all_objects(void)
{
    unsigned id;
    for (id = 0; id < MAX_OBJS; id++) {
        if (objs[id].kind)
            arena_check(&objs[id].arena, objs[id].kind->name, (int)id);
    }
}

/* ------------------------------------------------------------------ */
/* Operations                                                         */
/* ------------------------------------------------------------------ */

static void need(int cond, const char *usage)
{
    if (!cond)
        die("ill-formed operation; expected: %s", usage);
}

/* <kind> <op> <obj> <hex> <n> [<rounds> [<mode>]]   -> ret */
static void op_set(SetFn fn, int extra, void *obj, char **t, int nt)
{
    Bytes data;
    Arena a;
    const unsigned char *p;
    unsigned n, rounds = 0;
    int mode = 0, r;
    need(fn != NULL && nt == 5 + extra, "<kind> <op> <obj> <hex> <n> [<rounds> [<mode>]]");
    data = parse_hex(t[3]);
    n = parse_u32(t[4]);
    if (extra >= 1)
        rounds = parse_u32(t[5]);
    if (extra >= 2)
        mode = parse_int(t[6]);
    p = buf_from(&a, &data, 0);
    CT_SECRET(p, data.len);
    LIB(r = fn(obj, p, n, rounds, mode));
    CT_PUBLIC(p, data.len);
    emit("ret %d", r);
    arena_done(&a, "key/tweak/counter buffer");
    bytes_free(&data);
}

/* <kind> <op> <obj> <hexblock> [<hextweak>] [ovl= ai= ao=]   -> out */
static void op_ecb(EcbFn fn, size_t bs, int has_tweak, void *ks, char **t, int nt)
{
    Bytes in, tw = { NULL, 0, 1 };
    Arena atw;
    const unsigned char *ptw = NULL;
    Opts o;
    IO io;
    need(fn != NULL && nt >= 4 + has_tweak, "<kind> <op> <obj> <hexblock> [<hextweak>] [options]");
    in = parse_hex(t[3]);
    if (in.null || in.len != bs)
        die("input must be exactly one block");
    atw.raw = NULL;
    atw.buf = NULL;
    if (has_tweak) {
        tw = parse_hex(t[4]);
        ptw = buf_from(&atw, &tw, 0);
    }
    parse_opts(t, nt, 4 + has_tweak, O_OVL | O_AI | O_AO, &o);
    io_setup(&io, &in, bs, &o, bs);
    CT_SECRET(io.in, bs);
    CT_SECRET(ptw, tw.len);
    LIB(fn(io.out, io.in, ptw, ks));
    CT_PUBLIC(io.in, bs);
    CT_PUBLIC(ptw, tw.len);
    CT_PUBLIC(io.out, bs);
    line_begin();
    fputs("out ", stdout);
    put_hex(io.out, bs);
    line_end();
    save_out(io.out, bs);
    io_done(&io);
    arena_done(&atw, "tweak buffer");
    bytes_free(&tw);
    bytes_free(&in);
}

/* <kind> <op> <obj> <hexdata> [<hextweaks>] <n> [options]   -> ret [out]
   bs == 0: CTR rule (data length == n); bs > 0: parallel rule (data length
   is n rounded up to whole blocks) */
static void op_bulk(BulkFn fn, size_t bs, int has_tweak, unsigned allowed,
                    void *obj, char **t, int nt)
{
    Bytes in, tw = { NULL, 0, 1 };
    Arena atw;
    const unsigned char *ptw = NULL;
    Opts o;
    IO io;
    size_t n, want, outlen;
    int r;
    need(fn != NULL && nt >= 5 + has_tweak, "<kind> <op> <obj> <hexdata> [<hextweaks>] <n> [options]");
    in = parse_hex(t[3]);
    n = parse_size(t[4 + has_tweak]);
    want = n;
    if (bs != 0 && n % bs != 0)
        want = (n - n % bs <= SIZE_MAX - bs) ? n - n % bs + bs : SIZE_MAX;
    if (!in.null && in.len != want)
        die("data has %lu bytes, expected %lu", (unsigned long)in.len, (unsigned long)want);
    atw.raw = NULL;
    atw.buf = NULL;
    if (has_tweak) {
        tw = parse_hex(t[4]);
        if (!tw.null && tw.len != want)
            die("tweaks have %lu bytes, expected %lu", (unsigned long)tw.len, (unsigned long)want);
        ptw = buf_from(&atw, &tw, 0);
    }
    parse_opts(t, nt, 5 + has_tweak, allowed, &o);
    outlen = in.null ? (want < NULL_IN_CAP ? want : NULL_IN_CAP) : in.len;
    io_setup(&io, &in, outlen, &o, 0);
    CT_SECRET(io.in, in.null ? 0 : in.len);
    CT_SECRET(ptw, tw.len);
    LIB(r = fn(io.out, io.in, ptw, n, obj));
    CT_PUBLIC(io.in, in.null ? 0 : in.len);
    CT_PUBLIC(ptw, tw.len);
    CT_PUBLIC(io.out, io.outlen);
    line_begin();
    printf("ret %d", r);
    if (r != 0 && io.out != NULL) {
        fputs(" out ", stdout);
        put_hex(io.out, n < io.outlen ? n : io.outlen);
        save_out(io.out, n < io.outlen ? n : io.outlen);
    }
    line_end();
    io_done(&io);
    arena_done(&atw, "tweak buffer");
    bytes_free(&tw);
    bytes_free(&in);
}

static void op_init(InitFn fn, void *obj, int nt)
{
    int r;
    need(nt == 3, "<kind> init <obj>");
    LIB(r = fn(obj));
    emit("ret %d", r);
}

static void op_void(VoidFn fn, void *obj, int nt)
{
    need(fn != NULL && nt == 3, "<kind> <op> <obj>");
    LIB(fn(obj));
    emit("done");
}

static void *need_obj(void *obj)
{
    if (!obj)
        die("this operation needs an existing object, not '-'");
    return obj;
}

static void run_key_op(const Kind *k, const char *op, void *obj, char **t, int nt)
{
    const Fam *f = k->fam;
    int tweaked = (k->cls == CLS_T);
    if (!strcmp(op, "setkey") && !tweaked)
        op_set(f->setkey, f->key_extra, obj, t, nt);
    else if (!strcmp(op, "settk") && tweaked)
        op_set(f->settk, 0, obj, t, nt);
    else if (!strcmp(op, "settweak") && (tweaked || f == &fam_mantis))
        op_set(f->settweak, 0, obj, t, nt);
    else if (!strcmp(op, "enc"))
        op_ecb(f->enc, f->bs, 0, obj, t, nt);   /* &obj->ks == obj for t* */
    else if (!strcmp(op, "dec"))
        op_ecb(f->dec, f->bs, 0, obj, t, nt);
    else if (!strcmp(op, "crypt"))
        op_ecb(f->crypt, f->bs, 0, obj, t, nt);
    else if (!strcmp(op, "cryptt"))
        op_ecb(f->cryptt, f->bs, 1, obj, t, nt);
    else if (!strcmp(op, "swap"))
        op_void(f->swap, obj, nt);
    else if (!strcmp(op, "img")) {
        need(nt == 3, "<kind> img <obj>");
        f->img(need_obj(obj), tweaked);
    } else
        die("unknown operation '%s %s'", k->name, op);
}

static void run_ctr_op(const Kind *k, const char *op, void *obj, char **t, int nt)
{
    const Fam *f = k->fam;
    if (!strcmp(op, "init"))
        op_init(f->c_init, obj, nt);
    else if (!strcmp(op, "cleanup"))
        op_void(f->c_cleanup, obj, nt);
    else if (!strcmp(op, "setkey"))
        op_set(f->c_setkey, f->c_key_extra, obj, t, nt);
    else if (!strcmp(op, "settk"))
        op_set(f->c_settk, 0, obj, t, nt);
    else if (!strcmp(op, "settweak"))
        op_set(f->c_settweak, 0, obj, t, nt);
    else if (!strcmp(op, "setctr"))
        op_set(f->c_setctr, 0, obj, t, nt);
    else if (!strcmp(op, "crypt"))
        op_bulk(f->c_crypt, 0, 0, O_OUTNULL | O_INPLACE | O_AI | O_AO, obj, t, nt);
    else if (!strcmp(op, "which")) {
        const void *vt;
        need(nt == 3, "<kind> which <obj>");
        vt = f->c_vt(need_obj(obj));
        emit("which %s", vt == NULL ? "none" : vt == f->vt128 ? "v128" :
                         (f->vt256 && vt == f->vt256) ? "v256" : "def");
    } else
        die("unknown operation '%s %s'", k->name, op);
}

static void run_par_op(const Kind *k, const char *op, void *obj, char **t, int nt)
{
    const Fam *f = k->fam;
    const unsigned allowed = O_INPLACE | O_AI | O_AO;
    if (!strcmp(op, "init"))
        op_init(f->p_init, obj, nt);
    else if (!strcmp(op, "cleanup"))
        op_void(f->p_cleanup, obj, nt);
    else if (!strcmp(op, "swap"))
        op_void(f->p_swap, obj, nt);
    else if (!strcmp(op, "setkey"))
        op_set(f->p_setkey, f->p_key_extra, obj, t, nt);
    else if (!strcmp(op, "enc"))
        op_bulk(f->p_enc, f->bs, 0, allowed, obj, t, nt);
    else if (!strcmp(op, "dec"))
        op_bulk(f->p_dec, f->bs, 0, allowed, obj, t, nt);
    else if (!strcmp(op, "crypt"))
        op_bulk(f->p_crypt, f->bs, 1, allowed, obj, t, nt);
    else if (!strcmp(op, "psize")) {
        need(nt == 3, "<kind> psize <obj>");
        emit("psize %lu", (unsigned long)f->p_psize(need_obj(obj)));
    } else if (!strcmp(op, "which")) {
        need(nt == 3, "<kind> which <obj>");
        need_obj(obj);
        emit("which %s", f->p_vt(obj) == NULL ? "def" :
                         (f->p_has_v256 && f->p_psize(obj) == 128) ? "v256" : "v128");
    } else
        die("unknown operation '%s %s'", k->name, op);
}

static void run_cfg(char **t, int nt)
{
    need(nt >= 3, "cfg backend|cpu|ambient|failalloc ...");
    if (!strcmp(t[1], "backend") && nt == 3) {
        if (!strcmp(t[2], "def"))       cfg_backend = BACKEND_DEF;
        else if (!strcmp(t[2], "v128")) cfg_backend = BACKEND_V128;
        else if (!strcmp(t[2], "v256")) cfg_backend = BACKEND_V256;
        else die("unknown back end '%s'", t[2]);
    } else if (!strcmp(t[1], "cpu") && nt == 3 && !strcmp(t[2], "real")) {
        sim_active = 0;
    } else if (!strcmp(t[1], "cpu") && nt == 9) {
        sim_maxleaf = parse_hex32(t[2]);
        sim_l1ecx   = parse_hex32(t[3]);
        sim_l1edx   = parse_hex32(t[4]);
        sim_l7ebx0  = parse_hex32(t[5]);
        sim_l7ebxN  = parse_hex32(t[6]);
        sim_xcr0    = parse_hex32(t[7]);
        sim_oorebx  = parse_hex32(t[8]);
        sim_active = 1;
    } else if (!strcmp(t[1], "ambient") && nt == 3) {
        cfg_ambient = parse_hex32(t[2]);
    } else if (!strcmp(t[1], "failalloc") && nt == 3) {
        fail_in = parse_u32(t[2]);
    } else
        die("ill-formed cfg operation");
}

static void run_new(char **t, int nt)
{
    const Kind *k;
    unsigned id;
    int hi, lo;
    need(nt == 4, "new <kind> <id> <fill>");
    k = find_kind(t[1]);
    if (!k)
        die("unknown kind '%s'", t[1]);
    id = parse_obj_id(t[2]);
    if (strlen(t[3]) != 2 || (hi = hexval(t[3][0])) < 0 || (lo = hexval(t[3][1])) < 0) {
        die("fill must be two hex digits");
        return;
    }
    if (objs[id].kind) {
        arena_check(&objs[id].arena, objs[id].kind->name, (int)id);
        arena_free(&objs[id].arena);
    }
    objs[id].kind = k;
    arena_new(&objs[id].arena, k->size, 0);
    memset(objs[id].arena.buf, hi * 16 + lo, k->size);
}

static void run_line(char **t, int nt)
{
    const Kind *k;
    if (!strcmp(t[0], "cfg")) {
        run_cfg(t, nt);
    } else if (!strcmp(t[0], "probe")) {
        int v128, v256;
        need(nt == 1, "probe");
        LIB(v128 = _skinny_has_vec128());
        LIB(v256 = _skinny_has_vec256());
        emit("probe %d %d", v128, v256);
    } else if (!strcmp(t[0], "new")) {
        run_new(t, nt);
    } else if ((k = find_kind(t[0])) != NULL) {
        void *obj;
        need(nt >= 3, "<kind> <op> <obj> ...");
        obj = get_obj(t[2], k);
        if (k->cls == CLS_C)
            run_ctr_op(k, t[1], obj, t, nt);
        else if (k->cls == CLS_P)
            run_par_op(k, t[1], obj, t, nt);
        else
            run_key_op(k, t[1], obj, t, nt);
    } else
        die("unknown operation '%s'", t[0]);
}

/* ------------------------------------------------------------------ */
/* Main                                                               */
/* ------------------------------------------------------------------ */

#define MAX_TOKENS 16

int main(int argc, char **argv)
{
    static const int sigs[] = { SIGSEGV, SIGBUS, SIGILL, SIGFPE, SIGABRT };
    FILE *fp = stdin;
    char *line = NULL;
    size_t cap = 0, i;
    ssize_t got;
    unsigned id;

    if (getenv("DRIVER_STACKFILL"))
        stackfill = atoi(getenv("DRIVER_STACKFILL")) & 255;
#ifdef DRIVER_WITH_VALGRIND
    ct_mode = getenv("DRIVER_CT") != NULL;
#endif
    if (argc == 2 && !strcmp(argv[1], "--cpuinfo")) {
        /* describe the real CPU for the model: maxleaf l1ecx l1edx l7ebx0 l7ebx1 xcr0 */
        unsigned r0[4], r1[4], r70[4], r71[4];
        real_cpuid(0, 0, r0);
        real_cpuid(1, 0, r1);
        real_cpuid(7, 0, r70);
        real_cpuid(7, 1, r71);
        if (r0[0] < 7)
            r70[1] = r71[1] = 0;
        printf("%x %x %x %x %x %x\n", r0[0], r1[2], r1[3], r70[1], r71[1], _skinny_verif_xgetbv_real());
        return 0;
    }
    if (argc > 2) {
        fprintf(stderr, "usage: %s [script]\n", argv[0]);
        return 2;
    }
    if (argc == 2 && (fp = fopen(argv[1], "r")) == NULL) {
        fprintf(stderr, "driver: cannot open %s: %s\n", argv[1], strerror(errno));
        return 2;
    }
    for (i = 0; i < sizeof(sigs) / sizeof(sigs[0]); i++) {
        struct sigaction sa;
        memset(&sa, 0, sizeof(sa));
        sa.sa_handler = on_crash;
        sigemptyset(&sa.sa_mask);
        sigaction(sigs[i], &sa, NULL);
    }

    while ((got = getline(&line, &cap, fp)) >= 0) {
        char *t[MAX_TOKENS];
        int nt = 0;
        char *p;
        size_t len = (size_t)got;
        cur_line++;
        if (strlen(line) != len)
            die("NUL byte in script");
        if (len && line[len - 1] == '\n')
            line[--len] = '\0';
        if (len == 0 || line[0] == '#')
            continue;
        /* tokens are separated by single spaces */
        for (p = line; ; ) {
            char *sp = strchr(p, ' ');
            if (nt == MAX_TOKENS)
                die("too many tokens");
            t[nt++] = p;
            if (sp)
                *sp = '\0';
            if (*p == '\0')
                die("empty token (tokens are separated by single spaces)");
            if (!sp)
                break;
            p = sp + 1;
        }
        run_line(t, nt);
        check_all_objects();
    }
    free(line);
    if (fp != stdin)
        fclose(fp);

    /* Final canary check; the arenas of all objects are released as well */
    check_all_objects();
    for (id = 0; id < MAX_OBJS; id++) {
        if (objs[id].kind)
            arena_free(&objs[id].arena);
    }
    free(recs);
    if (bad_desc[0])
        printf("end canaries BAD %s\n", bad_desc);
    else
        printf("end canaries ok\n");
    fflush(stdout);
    return 0;
}
