"""Tie T, whole functions: translator/whole.py regenerates from the CURRENT source, per build configuration, the structured
IR (coq/SIR.v) of whole public functions; Coq re-proves for each public configuration (round count, key size, ...) that the
translated function, run by the reference interpreter, produces the model's result for ALL data and with the recorded,
data-independent trace of branches and addresses."""
import os, re
from concurrent.futures import ThreadPoolExecutor
import common as C
from kernels import KCFG

# part selectors: <family>_<function>_<public configuration>
BLK_PARTS = (["blk128_%s_%d" % (d, r) for d in ("enc", "dec") for r in (40, 48, 56)] +
             ["blk64_%s_%d" % (d, r) for d in ("enc", "dec") for r in (32, 36, 40)])
QUICK_BLK = ["blk128_enc_40", "blk128_dec_56", "blk64_enc_36", "blk64_dec_32"]
# MANTIS block functions, functionally (WholeMantis.mcryptA_final / mcryptB_final): stored tweak / per-call tweak, r = 5..8
MBLK_PARTS = ["mblk_%s_%d" % (k, r) for k in ("crypt", "cryptt") for r in (5, 6, 7, 8)]
QUICK_MBLK = ["mblk_crypt_5", "mblk_crypt_8", "mblk_cryptt_6", "mblk_cryptt_7"]
# MANTIS key-schedule functions, functionally (WholeMantisKey.v): accepted and rejected set_key calls, set_tweak (8 bytes, NULL,
# rejected length), swap_modes
MKEY_BAD = ["mkey_setkeybad_15_6", "mkey_setkeybad_17_8", "mkey_setkeybad_16_4", "mkey_setkeybad_16_9", "mkey_setkeybad_0_0",
            "mkey_setkeybad_4294967295_5", "mkey_settweak_bad7"]
MKEY_PARTS = (["mkey_setkey_%d_%d" % (r, m) for r in (5, 6, 7, 8) for m in (1, 0)] + MKEY_BAD +
              ["mkey_settweak_8", "mkey_settweak_null", "mkey_swap"])
QUICK_MKEY = ["mkey_setkey_5_1", "mkey_setkey_8_0", "mkey_setkeybad_16_9", "mkey_setkeybad_15_6", "mkey_settweak_8",
              "mkey_settweak_null", "mkey_swap"]
# key-schedule functions: every accepted key size, rejected sizes, tweaked keys, tweak changes for both round counts
# generic CTR encryption functionally, block function as a procedure call (WholeProc.v / WholeCtr.v): (request size, offset
# of the first unused key-stream byte) — empty request, inside the buffered block, up to its end, across one or several
# refills, ending on a block boundary or with a partial block
def pctr_parts(quick):
    out = []
    for c, bs in (("c128", 16), ("c64", 8), ("mc", 8)):
        if quick: cfgs = [(bs + 3, 5), (bs + 1, bs), (1, bs)] if c == "c128" else [(bs + 1, bs), (2 * bs + 3, 3)]
        else: cfgs = [(0, bs), (0, 3), (1, bs), (1, 0), (bs - 1, 1), (bs, bs), (bs, 0), (bs + 1, bs), (bs + 3, 5), (2 * bs, bs),
                      (2 * bs, 1), (3 * bs + 3, bs - 1), (4 * bs + 1, bs), (5, bs - 5), (5, bs - 4), (2, bs - 1)]
        out += ["pctr_%s_%d_%d" % (c, sz, off) for sz, off in cfgs]
    return out
# the two layers composed (WholeCompose.v): generic CTR encryption with the call run by the block function's own code
def comp_parts(quick):
    if quick: return ["comp_c128_19_5_40", "comp_c64_9_8_32", "comp_mc_19_3_7"]
    return ["comp_c128_%d_%d_%d" % (sz, off, R) for sz, off in ((19, 5), (17, 16), (1, 0), (33, 16)) for R in (40, 48, 56)] + \
           ["comp_c64_%d_%d_%d" % (sz, off, R) for sz, off in ((9, 8), (19, 3), (1, 0), (17, 8)) for R in (32, 36, 40)] + \
           ["comp_mc_%d_%d_%d" % (sz, off, R) for sz, off in ((9, 8), (19, 3), (1, 0), (17, 8)) for R in (5, 6, 7, 8)]
# parallel ECB functionally, both callees as procedure calls (WholePar.v): zero blocks, fewer than a group, whole groups, groups
# plus left-over blocks, per back end and direction
def ppar_parts(quick):
    out = []
    for c, bs, bes in (("c128", 16, (("def", 64), ("v128", 64), ("v256", 128))), ("c64", 8, (("def", 32), ("v128", 64)))):
        for be, ps in bes:
            if quick: sizes = [ps + 3 * bs] if be != "def" else [3 * bs]
            else: sizes = [0, bs, ps - bs, ps, ps + bs, 2 * ps, 2 * ps + 3 * bs, 3 * ps + (ps - bs)]
            for d in ("enc", "dec"):
                out += ["ppar_%s_%s_%s_%d" % (c, be, d, sz) for sz in sizes]
    # MANTIS: one function for both directions, the tweak array as a second data argument (WholeParM.v)
    for be, ps in (("def", 32), ("v128", 64)):
        sizes = ([ps + 24] if be != "def" else [24]) if quick else [0, 8, ps - 8, ps, ps + 8, 2 * ps, 2 * ps + 24, 3 * ps + (ps - 8)]
        out += ["ppar_mc_%s_crypt_%d" % (be, sz) for sz in sizes]
    return out
# SIMD CTR encryption functionally, vector block function as a procedure call (WholeCtrVec.v / WholeCtrVecModel.v):
# (request size, offset) relative to the batch of L blocks
def vctr_parts(quick):
    out = []
    for c, be, BSZ in (("c128", "v128", 64), ("c128", "v256", 128), ("c64", "v128", 64), ("mc", "v128", 64)):
        if quick: cfgs = [(BSZ + 6, 5)] if be != "v256" else [(BSZ + 2, BSZ)]
        else: cfgs = [(0, BSZ), (1, BSZ), (1, 0), (BSZ - 1, 1), (BSZ, BSZ), (BSZ + 1, BSZ), (BSZ + 6, 5), (2 * BSZ, BSZ), (2 * BSZ + 3, BSZ - 1), (5, BSZ - 5), (7, 9)]
        out += ["vctr_%s_%s_%d_%d" % (c, be, sz, off) for sz, off in cfgs]
    return out
# *_ctr_*_set_counter of every back end functionally (WholeCtrSet.v): counter lengths 0..bs, NULL, rejected lengths
def sctr_parts(quick):
    out = []
    for c, be, bs in (("c128", "def", 16), ("c128", "v128", 16), ("c128", "v256", 16), ("c64", "def", 8), ("c64", "v128", 8), ("mc", "def", 8), ("mc", "v128", 8)):
        if quick: szs = [3, "null"] if be != "v256" else [bs - 1]
        else: szs = [0, 1, 3, bs - 1, bs, "null", bs + 1, 4294967295]
        out += ["sctr_%s_%s_%s" % (c, be, sz) for sz in szs]
    return out
# key / tweak setters of the CTR back ends functionally (WholeCtrKey.v)
def kctr_parts(quick, what="all"):
    out = []
    for c, bes, bs, r2, r3 in (("c128", ("def", "v128", "v256"), 16, 48, 56), ("c64", ("def", "v128"), 8, 36, 40)):
        for be in bes:
            if quick:
                sk = [2 * bs + 1] if be == "def" else [bs - 1, 3 * bs]; stk = [bs + 3] if be != "def" else [2 * bs + 1]
                st = [(r2, 3)] if be != "def" else [(r3, "null")]
            else:
                sk = [bs - 1, bs, bs + 1, 2 * bs, 2 * bs + 5, 3 * bs, 3 * bs + 1]; stk = [bs - 1, bs, bs + 3, 2 * bs, 2 * bs + 1]
                st = [(r2, 1), (r2, bs), (r3, bs - 1), (r3, "null"), (r2, 0), (r3, bs + 1)]
            if what in ("all", "key"): out += ["kctr_%s_%s_sk_%d" % (c, be, n) for n in sk] + ["kctr_%s_%s_stk_%d" % (c, be, n) for n in stk]
            if what in ("all", "tweak"): out += ["kctr_%s_%s_st_%d_%s" % (c, be, r, t) for r, t in st]
    for be in ("def", "v128"):
        if what in ("all", "key"): out += ["kctr_mc_%s_sk_%d" % (be, r) for r in ((6, 9) if quick else (4, 5, 6, 7, 8, 9))]
        if what in ("all", "tweak"): out += ["kctr_mc_%s_st_%s" % (be, t) for t in (("null",) if quick else ("8", "null", "7"))]
    return out
# key setters of the parallel-ECB objects functionally (WholeParKey.v)
def kpar_parts(quick):
    out = []
    for c, bs in (("c128", 16), ("c64", 8)):
        szs = [bs - 1, bs + 1, 3 * bs] if quick else [0, bs - 1, bs, bs + 1, 2 * bs, 2 * bs + 5, 3 * bs, 3 * bs + 1, 4294967295]
        out += ["kpar_%s_sk_%d" % (c, n) for n in szs]
    out += ["kpar_mc_sk_%d_%d" % (r, m) for r, m in (((5, 0), (8, 1)) if quick else [(r, m) for r in (5, 6, 7, 8) for m in (0, 1)])]
    out += ["kpar_mc_skbad_16_9", "kpar_mc_swap"] + ([] if quick else ["kpar_mc_skbad_15_6", "kpar_mc_skbad_16_4"])
    return out
def key_parts(w, quick):
    bs = 16 if w == "128" else 8
    fam = "key" + w
    r2, r3 = (48, 56) if w == "128" else (36, 40)
    if quick:
        sk = [bs, bs + 1, 2 * bs - 1, 2 * bs, 2 * bs + 3, 3 * bs - 2, 3 * bs]; skbad = [bs - 1, 3 * bs + 1]
        stk = [bs, bs + 3, 2 * bs]; stkbad = [2 * bs + 1]
        st = [(r2, 1), (r3, bs - 1), (r2, bs), (r3, "null")]; stbad = [(r3, 0), (r2, bs + 1)]
    else:
        sk = list(range(bs, 3 * bs + 1)); skbad = [0, 1, bs - 1, 3 * bs + 1, 4 * bs, 2**31, 2**32 - 1]
        stk = list(range(bs, 2 * bs + 1)); stkbad = [0, bs - 1, 2 * bs + 1, 3 * bs, 2**32 - 1]
        st = [(r, t) for r in (r2, r3) for t in list(range(1, bs + 1)) + ["null"]]; stbad = [(r3, 0), (r2, bs + 1), (r3, 2**32 - 1)]
    return (["%s_sk_%d" % (fam, n) for n in sk + skbad] + ["%s_stk_%d" % (fam, n) for n in stk + stkbad] +
            ["%s_st_%d_%s" % (fam, r, t) for r, t in st + stbad])
def parts_sk(w, quick): return [p for p in key_parts(w, quick) if "_sk_" in p]
def parts_tweak(w, quick): return [p for p in key_parts(w, quick) if "_stk_" in p or "_st_" in p]

def ct_part_names(quick, simd=True):
    """constant-time-only parts: MANTIS single-block API, CTR and parallel-ECB back ends (generic; SIMD where compiled in)"""
    import importlib.util, sys
    tdir = os.path.join(C.VERIF, "translator")
    if tdir not in sys.path: sys.path.insert(0, tdir)
    spec = importlib.util.spec_from_file_location("translator_whole", os.path.join(tdir, "whole.py"))
    TW = importlib.util.module_from_spec(spec); spec.loader.exec_module(TW)
    names = [n for n in TW.mantis_cfgs() if not quick or n in ("mct_setkey_7_0", "mct_setkey_bad_16_9", "mct_crypt_5", "mct_cryptt_8", "mct_settweak_null", "mct_swap")]
    names += list(TW.ctr_parts(quick)) + list(TW.par_parts(quick))
    if not simd: names = [n for n in names if "_v128_" not in n and "_v256_" not in n]
    return names

def one(repo_copy, gen, cfg, part):
    gv = os.path.join(gen, "Whole_%s_%s.v" % (cfg, part))
    rc, out, err = C.sh(["python3", os.path.join(C.VERIF, "translator", "whole.py"), repo_copy, gv, cfg, part] + KCFG[cfg], timeout=300)
    r = {"cfg": cfg, "part": part, "ok": False, "obligations": 1, "discharged": 0}
    if rc != 0:
        r.update(stage="translator", log=(out + err)[-1500:],
                 secret_dependent=("secret-dependent" in err))
        return r
    m = re.search(r"(\d+) whole-function", out); r["obligations"] = int(m.group(1)) if m else 1
    import subprocess, time
    for attempt in range(3):
        try:
            rc, out, err = C.sh(["coqc", "-Q", C.COQ, "Skinny", gv], cwd=gen, timeout=900)
        except subprocess.TimeoutExpired:
            # e.g. a length that wraps around makes the partial evaluator unroll billions of byte stores: the obligation is not shown
            r.update(stage="obligation", failed="%s (coqc did not finish in 900 s)" % part, log="timeout")
            return r
        if rc == 0 or "Error" in out + err: break
        # coqc died without reporting an error (killed: memory pressure when many checks run at once): not a verdict, try again
        time.sleep(30 * (attempt + 1))
    if rc == 0 and "Axioms:" not in out:
        r.update(ok=True, discharged=r["obligations"]); return r
    # which obligation fails
    m = re.search(r'File "[^"]*", line (\d+), characters [\d-]+:\s*\n\s*Error', out + err) or re.search(r'File "[^"]*", line (\d+)', out + err)
    failed = None
    if m:
        ln = int(m.group(1)); lines = open(gv).read().splitlines()
        for i in range(min(ln, len(lines)) - 1, -1, -1):
            mm = re.match(r"\s*(?:Theorem|Definition) (\w+)", lines[i])
            if mm: failed = mm.group(1); break
    r.update(stage="obligation", failed=failed, log=(out + err)[-1500:])
    return r

def check_whole(run, cfgs, parts):
    v0 = C.build_variant(run.work, "native", "gcc", "-O2")
    ok, log = C.coq_make(["WholeBridge.vo"])
    if not ok:
        raise RuntimeError("the whole-function checking library does not build:\n" + log[-2000:])
    gen = os.path.join(run.work.dir, "genw"); os.makedirs(gen, exist_ok=True)
    jobs = [(c, p) for c in cfgs for p in parts if not (("_v128_" in p or "_v256_" in p) and c not in ("native", "w32", "noua"))]
    with ThreadPoolExecutor(max_workers=min(C.NCPU, len(jobs))) as ex:
        res = list(ex.map(lambda cp: one(v0.dir, gen, cp[0], cp[1]), jobs))
    prev = getattr(run, "whole_stats", None) or {"configurations": [], "parts": [], "obligations": 0, "discharged": 0}
    run.whole_stats = {"configurations": sorted(set(prev["configurations"]) | set(cfgs)), "parts": prev["parts"] + [p for p in parts if p not in prev["parts"]],
                       "obligations": prev["obligations"] + sum(r["obligations"] for r in res),
                       "discharged": prev["discharged"] + sum(r["discharged"] for r in res)}
    run.notes.append("tie T (whole functions): %d obligations regenerated from the current source (%s) and re-proved: %s" % (
        sum(r["obligations"] for r in res), ", ".join(cfgs), ", ".join("%s/%s %s" % (r["cfg"], r["part"], "ok" if r["ok"] else "FAILED") for r in res)))
    return [r for r in res if not r["ok"]]
