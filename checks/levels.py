"""What each check claims (mirrors MANIFEST.json) and the trusted base it names in its evidence."""
COMMON_TB = [
 "Coq 8.16.1 kernel and its VM (vm_compute); no native_compute; no axioms declared; Print Assumptions of every property theorem: Closed under the global context",
 "the specifications coq/SpecSkinny.v, coq/SpecMantis.v as transcriptions of ePrint 2016/660 (validated by the 6+4 published vectors and the S-box tables, coq/SpecTests.v)",
 "the hand-written model coq/ModelCipher.v, ModelCtr.v, ModelCpu.v, Api.v is tied to the C code by the correspondence check only (differential runs of the extracted model against the library built from /repo's working tree)",
 "extraction: Require Extraction + ExtrOcamlBasic only (bool, option, unit, list, prod, sumbool mapped to OCaml's); no Extract Constant/Inductive of our own; N, positive, nat stay extracted inductives; OCaml 4.13.1; harness/model_main.ml (parser/printer glue)",
 "harness/driver.c, checks/*.py (generators, comparison), gcc 12 / clang 14, sanitizer run-times, ld --wrap for allocator events",
 "ties T/W (where the check uses them): translator/c2ir.py, translator/c2sir.py, translator/whole.py, clang 14's typed AST; coq/IR.v's evaluator and coq/SIR.v's reference interpreter as the rendering of the C subset on a little-endian LP64 host; the declared public struct fields (rounds, offset, parallel_size) and pointer fields (ctx, vtable); vm_compute / vm_cast_no_check in every reflective obligation",
]
TRUSTED = {"*": COMMON_TB}
ASSUME = {"*": ["little-endian x86-64 host", "the compilers preserve source semantics for the builds exercised",
                "model and library are compared on generated operation scripts, not on all inputs: the for-all statement is about the model"]}
LEVEL = {p: ("proof", "Theorems of coq/Properties_%s.v re-checked by a full .vo build; the model they speak about is compared with the "
                       "library built from /repo's current working tree on generated operation scripts (counts in this file)." % p)
         for p in ["C%02d" % i for i in range(1, 21)]}

import json, os
try:
    _m = json.load(open(os.path.join(os.path.dirname(os.path.dirname(os.path.abspath(__file__))), "MANIFEST.json")))
    for c in _m["checks"]:
        LEVEL[c["property_id"]] = (c["level_claimed"]["category"], c["level_claimed"]["text"])
        ASSUME[c["property_id"]] = ASSUME["*"] + [c["level_note"]]
except Exception:
    pass
