"""Checks that need more than the plain driver/model comparison: C08 (valgrind), C11 (junk
independence), C12 (build matrix), C18 (threads), C19 (Arduino port), C20 (example tools)."""
import os, re, shutil, subprocess
import common as C
import gens as G

def _imports():
    import check
    return check

# ---------------------------------------------------------------- C11
def p_c11(run):
    ck = _imports()
    scripts = G.gen_mix(run.rng, run.tier)
    builds = [("native", "gcc", "-O2", ""), ("native", "gcc", "-O0", ""), ("native", "clang", "-O2", ""),
              ("native", "clang", "-O1", "msan"), ("w32", "gcc", "-O2", ""), ("neutral32", "clang", "-O1", "msan")]
    if run.tier != "quick":
        builds += [("native", "gcc", "-O3", ""), ("native", "clang", "-O0", ""), ("w32", "gcc", "-O2", ""),
                   ("nosimd", "clang", "-O1", "msan"), ("neutral", "clang", "-O1", "msan"), ("w32", "clang", "-O1", "msan")]
    envs = [{}, {"DRIVER_STACKFILL": "165", "MALLOC_PERTURB_": "90"}, {"DRIVER_STACKFILL": "255", "MALLOC_PERTURB_": "1"}]
    if run.tier != "quick":
        envs.append({"DRIVER_STACKFILL": "0", "MALLOC_PERTURB_": "255"})
    for cfg, cc, opt, san in builds:
        v = C.build_variant(run.work, cfg, cc, opt, san)
        for item in scripts:
            title, script, meta = item[0], item[1], (item[2] if len(item) > 2 else [])
            for env in (envs if not san else envs[:2]):
                res = run.correspond(title + (" env=%s" % env if env else ""), script, v, env_extra=env)
                if res is not None and meta:
                    ck.apply_meta(run, title, v, script, res, meta)
    run.notes.append("each script executed in separate processes with different stack pre-fill (DRIVER_STACKFILL), "
                     "MALLOC_PERTURB_, compilers and optimisation levels, and under MemorySanitizer; every result line "
                     "must equal the deterministic model's")
    # the C++ port too: the Arduino classes, run with different stack pre-fills, must equal their deterministic model (a class
    # that computes from a local it did not initialise gives different results from run to run)
    drv = build_arduino(run, "g++", "-O2", ())
    import random
    arng = random.Random("C11/arduino/%s/%d" % (run.tier, run.seed))
    for cls, ascript, cscript, pairs, refs in G.gen_c19(arng, run.tier):
        m = subprocess.run([run.model, "--arduino", "/dev/stdin"], input=ascript, capture_output=True, text=True, timeout=600)
        if m.returncode != 0 or "MODEL-UNDEFINED" in m.stdout:
            raise RuntimeError("harness error: arduino model rejected the script: " + m.stderr[-300:])
        for fill in ("0", "165", "255"):
            run.stats["scripts"] += 1; run.stats["variants"].add("arduino-g++-O2 stackfill=" + fill)
            p = subprocess.run([drv], input=ascript, capture_output=True, text=True, timeout=600,
                               env=dict(os.environ, DRIVER_STACKFILL=fill))
            run.stats["ops"] += len(ascript.splitlines()); run.stats["oracle_checks"] += 1
            d = C.first_diff(p.stdout, m.stdout) if p.returncode == 0 else (0, "driver exit %d" % p.returncode, "")
            if d is not None:
                run.add_violation({"property": "C11", "kind": "arduino", "class": cls, "stackfill": fill,
                                   "what": "Arduino class %s with stack pre-fill %s disagrees with its deterministic model: library `%s` / model `%s`"
                                           % (cls, fill, str(d[1])[:150], str(d[2])[:150]),
                                   "arduino_script": ascript.splitlines()})
                break

# ---------------------------------------------------------------- C12
def p_c12(run):
    ck = _imports()
    ck.kernel_tie(run, ("native", "w32", "neutral", "neutral32"), ck.ALL_PARTS)
    import whole as W
    q = run.tier == "quick"
    ck.whole_tie(run, ("native", "w32", "noua", "neutral", "neutral32"), (W.QUICK_BLK + W.QUICK_MBLK[:2]) if q else (W.BLK_PARTS + W.MBLK_PARTS))
    # the mode layers that exist in every configuration (generic back ends): the same model statement in all five
    gen_parts = ["pctr_c128_19_5", "pctr_mc_9_8", "ppar_c128_def_enc_48", "ppar_mc_def_crypt_24", "sctr_c64_def_3", "kctr_c128_def_stk_19",
                 "mkey_setkey_6_0", "kpar_c64_sk_17"]
    if not q: gen_parts = [p_ for p_ in W.pctr_parts(False) + W.ppar_parts(False) + W.sctr_parts(False) if "_def_" in p_ or p_.startswith("pctr")]
    ck.whole_tie(run, ("native", "w32", "noua", "neutral", "neutral32"), gen_parts)
    scripts = G.gen_mix(run.rng, run.tier)
    cfgs = list(C.CONFIGS)
    builds = [(c, "gcc", "-O2") for c in cfgs]
    if run.tier == "quick":
        builds += [("native", "clang", "-O2"), ("native", "gcc", "-O0"), ("native", "gcc", "-O3"), ("native", "clang", "-O0"),
                   ("w32noua", "clang", "-O3"), ("neutral32", "clang", "-O1"), ("nosimd", "clang", "-O2"), ("neutral", "gcc", "-O3")]
    else:
        builds = [(c, cc, o) for c in cfgs for cc in ("gcc", "clang") for o in ("-O0", "-O1", "-O2", "-O3")]
    for cfg, cc, opt in builds:
        v = C.build_variant(run.work, cfg, cc, opt, "")
        for item in scripts:
            title, script, meta = item[0], item[1], (item[2] if len(item) > 2 else [])
            res = run.correspond(title, script, v)
            if res is not None and meta:
                ck.apply_meta(run, title, v, script, res, meta)
        # keep the scratch space small: the variant's tree is no longer needed
        shutil.rmtree(v.dir, ignore_errors=True)
    run.notes.append("builds: %d (configuration switches x compiler x optimisation level)" % len(builds))

# ---------------------------------------------------------------- C08
def ct_scripts(rng, tier):
    """public-parameter combinations; the secret values are whatever the generator put there (memcheck tracks
    them symbolically as undefined bits).  No img ops: they would print secret-derived bytes."""
    out = []
    for t in G.gen_mix(rng, tier):
        lines = [l for l in t[1].splitlines()]
        lines = ["#" if re.match(r"\S+ img ", l) else l for l in lines]
        out.append((t[0], "\n".join(lines) + "\n"))
    return out

def build_ct(run, cfg, cc, opt):
    v = C.build_variant(run.work, cfg, cc, opt, "", extra=("-gdwarf-4",))
    drv = v.driver + "_ct"
    if not os.path.exists(drv):
        rc, out, err = C.sh([cc, "-std=gnu99", opt, "-gdwarf-4", "-DDRIVER_WITH_VALGRIND", "-I" + os.path.join(v.dir, "include"),
                             "-I" + os.path.join(v.dir, "src"), "-o", drv, os.path.join(C.HARNESS, "driver.c"),
                             os.path.join(v.dir, "src", "libskinny.a"), "-Wl,--wrap=calloc", "-Wl,--wrap=free"])
        if rc != 0:
            raise C.BuildError(v.name + "_ct", out + err)
    v2 = C.Variant(v.name + "+memcheck", drv, v.has128, v.has256, dict(v.env, DRIVER_CT="1"))
    v2.dir = v.dir
    return v2

def p_c08(run):
    builds = [("native", "gcc", "-O2"), ("nosimd", "gcc", "-O2"), ("nosimd32", "gcc", "-O2"), ("neutral", "gcc", "-O1")] if run.tier == "quick" else \
             [("native", "gcc", "-O2"), ("native", "gcc", "-O3"), ("native", "clang", "-O2"), ("w32", "gcc", "-O2"),
              ("nosimd", "gcc", "-O2"), ("nosimd32", "gcc", "-O2"), ("neutral", "gcc", "-O2"), ("neutral32", "clang", "-O2"),
              ("noua", "gcc", "-O2"), ("nosimd", "gcc", "-O0")]
    # (S) source level, every public-parameter combination at once: conservative taint analysis of src/*.c on clang's
    #     AST per configuration — no branch condition, array index, pointer offset, memcpy/memset size or indirect-call
    #     target may depend on data loaded from key/tweak/counter/data/schedule memory
    ck = _imports()
    v0 = C.build_variant(run.work, "native", "gcc", "-O2")
    tflags = {"native": [], "w32": ["-DSKINNY_C_VERIF", "-DSKINNY_C_VERIF_64BIT=0"],
              "neutral": ["-DSKINNY_C_VERIF", "-DSKINNY_C_VERIF_LITTLE_ENDIAN=0", "-DSKINNY_C_VERIF_VEC128=0", "-DSKINNY_C_VERIF_VEC256=0"],
              "neutral32noua": ["-DSKINNY_C_VERIF", "-DSKINNY_C_VERIF_LITTLE_ENDIAN=0", "-DSKINNY_C_VERIF_64BIT=0", "-DSKINNY_C_VERIF_UNALIGNED=0",
                                "-DSKINNY_C_VERIF_VEC128=0", "-DSKINNY_C_VERIF_VEC256=0"],
              "noua": ["-DSKINNY_C_VERIF", "-DSKINNY_C_VERIF_UNALIGNED=0"]}
    static_hits = []
    for name, fl in tflags.items():
        rc, out, err = C.sh(["python3", os.path.join(C.VERIF, "translator", "taint.py"), v0.dir] + fl, timeout=300)
        run.stats["oracle_checks"] += 1
        summary = (out.strip().splitlines() or ["?"])[-1]
        run.notes.append("source-level taint analysis, configuration %s: %s" % (name, summary))
        if rc == 3:
            static_hits.append((name, ["taint.py could not process the source: " + err[-300:]]))
        elif rc != 0:
            static_hits.append((name, [l for l in out.splitlines() if l.startswith("TAINT")][:20]))
    # (T) the bit-level kernels regenerate as straight-line IR (the IR cannot express a data-dependent branch or address;
    #     the translator refuses anything else)
    ck.kernel_tie(run, ("native", "w32", "neutral") if run.tier == "quick" else ("native", "w32", "neutral", "neutral32"))
    # (W) whole functions of the single-block API regenerate as two-sorted structured IR (coq/SIR.v): the translator puts every
    #     value that steers a branch, bounds a loop or forms an address in the PUBLIC sort and fails on anything else; for such
    #     programs SIRProofs.interp_trace_public proves that the trace of branches and addresses is a function of the public
    #     inputs; each obligation below also re-proves the function's result for all data at one public configuration
    import whole as W
    q = run.tier == "quick"
    ck.whole_tie(run, ("native", "w32") if q else ("native", "w32", "neutral", "neutral32"),
                 (W.QUICK_BLK if q else W.BLK_PARTS) + W.key_parts("128", q) + W.key_parts("64", q) + W.ct_part_names(q))
    scripts = ct_scripts(run.rng, run.tier)
    wrapper = ("valgrind", "-q", "--error-exitcode=66", "--track-origins=no")
    from concurrent.futures import ThreadPoolExecutor
    for cfg, cc, opt in builds:
        v = build_ct(run, cfg, cc, opt)
        def one(item):
            return item, C.run_driver(v, item[1], wrapper=wrapper, timeout=900)
        with ThreadPoolExecutor(max_workers=C.NCPU) as ex:
            results = list(ex.map(one, scripts))
        for (title, script), (rc, out, err) in results:
            run.account(title, script, v)
            run.stats["oracle_checks"] += 1
            mrc, mout, merr = run.model_out(v, script)
            if rc == 66 or "depends on uninitialised" in err or "Use of uninitialised" in err:
                first = [l for l in err.splitlines() if "uninitialised" in l][:1]
                where = [l.strip() for l in err.splitlines() if re.search(r"(by|at) 0x", l)][:4]
                # locate the op: the driver flushes one result line per op, the last line printed precedes the report
                run.add_violation({"property": "C08", "kind": "secret-dependent branch or address (valgrind memcheck, secrets marked undefined)",
                                   "what": "a branch or memory address depends on key/tweak/counter/data bytes (%s)" % title,
                                   "variant": v.name, "wrapper": list(wrapper), "detail": (first + where),
                                   "script": script.splitlines(), "env": {"DRIVER_CT": "1"}, "seed": run.seed, "tier": run.tier})
            elif rc != 0:
                run.add_violation({"property": "C08", "kind": "crash", "what": "driver failed under valgrind (%s)" % title,
                                   "variant": v.name, "detail": err[-800:], "script": script.splitlines()})
            elif C.first_diff(out, mout) is not None:
                run.report_mismatch(title, C.Mismatch("diff", v, script, out, mout, ""), wrapper=wrapper)
    for name, hits in static_hits:
        concrete = [v for v in run.violations if not v[2]]
        run.add_violation({"property": "C08", "kind": "source-level taint analysis",
                           "what": "a branch, address, size or call target in src/ depends on secret data (configuration %s)" % name,
                           "sinks": hits}, no_input=not concrete)
    run.notes.append("every script run under valgrind memcheck with key, tweak, counter, input and tweak-array bytes marked "
                     "undefined: any conditional jump or address computed from them is reported")

# ---------------------------------------------------------------- C18
def p_c18(run):
    import json, tempfile
    # (T) inventory of objects with static storage duration, regenerated from the current source; obligation: all const
    v0 = C.build_variant(run.work, "native", "gcc", "-O2")
    gen = os.path.join(run.work.dir, "gen"); os.makedirs(gen, exist_ok=True)
    mutable = []
    for name, flags in (("native", []), ("nosimd", ["-DSKINNY_C_VERIF", "-DSKINNY_C_VERIF_VEC128=0", "-DSKINNY_C_VERIF_VEC256=0"]),
                        ("w32neutral", ["-DSKINNY_C_VERIF", "-DSKINNY_C_VERIF_64BIT=0", "-DSKINNY_C_VERIF_LITTLE_ENDIAN=0",
                                        "-DSKINNY_C_VERIF_VEC128=0", "-DSKINNY_C_VERIF_VEC256=0"])):
        gv = os.path.join(gen, "Globals_%s.v" % name)
        rc, out, err = C.sh(["python3", os.path.join(C.VERIF, "translator", "globals.py"), v0.dir, gv] + flags)
        if rc != 0:
            run.add_violation({"property": "C18", "kind": "translator", "what": "globals.py cannot process the source (%s)" % name,
                               "log": (out + err)[-2000:]}, no_input=True)
            continue
        rc2, out2, err2 = C.sh(["coqc", gv], cwd=gen, timeout=300)
        run.stats["oracle_checks"] += 1
        run.notes.append("Globals_%s.v: %s; no_mutable_globals %s" % (name, out.strip().splitlines()[0], "proved" if rc2 == 0 else "FAILED"))
        if rc2 != 0:
            mutable.append((name, [l for l in out.splitlines() if l.startswith("MUTABLE")]))
    # (C) thread-sanitizer runs: concurrent inits, distinct objects in >= 8 threads, shared read-only objects
    found_race = False
    builds = [("native", "gcc", "-O2"), ("nosimd", "gcc", "-O1")] if run.tier == "quick" else \
             [("native", "gcc", "-O2"), ("nosimd", "gcc", "-O1"), ("native", "clang", "-O2"), ("w32", "gcc", "-O0"), ("neutral", "clang", "-O1")]
    for cfg, cc, opt in builds:
        v = C.build_variant(run.work, cfg, cc, opt, "tsan")
        exe = os.path.join(v.dir, "threads")
        rc, out, err = C.sh([cc, opt, "-g", "-fsanitize=thread", "-I" + os.path.join(v.dir, "include"), "-o", exe,
                             os.path.join(C.HARNESS, "threads.c"), os.path.join(v.dir, "src", "libskinny.a"), "-lpthread"])
        if rc != 0:
            raise C.BuildError(v.name + "+threads", out + err)
        env = dict(os.environ, TSAN_OPTIONS="exitcode=66:halt_on_error=0")
        for nth, iters in ((8, 40), (16, 20), (3, 60)) if run.tier == "quick" else ((8, 200), (16, 100), (32, 40), (2, 400)):
            p = subprocess.run([exe, str(nth), str(iters)], capture_output=True, text=True, env=env, timeout=1200)
            run.stats["scripts"] += 1; run.stats["ops"] += nth * iters * 40; run.stats["variants"].add(v.name)
            for tid in range(nth):
                run.stats["shapes"].add("workload of thread %d of %d x %d iterations on %s" % (tid, nth, iters, v.name))
            run.stats["oracle_checks"] += 1
            if len(run.samples) < 3:
                run.samples.append({"cmd": "threads %d %d" % (nth, iters), "variant": v.name, "output": p.stdout.splitlines()[:3]})
            if p.returncode != 0 or "MISMATCH" in p.stdout or "ThreadSanitizer" in p.stderr:
                found_race = True
                run.add_violation({"property": "C18", "kind": "data race / thread-dependent result",
                                   "what": "concurrent use differs from sequential use or ThreadSanitizer reports a race",
                                   "variant": v.name, "cmd": "harness/threads.c %d %d (TSan build)" % (nth, iters),
                                   "stdout": p.stdout.splitlines()[:20], "stderr": p.stderr.splitlines()[:40]})
                break
    for name, muts in mutable:
        run.add_violation({"property": "C18", "kind": "proof", "what": "Theorem no_mutable_globals (generated Globals_%s.v) no longer holds: "
                           "the library defines mutable objects with static storage duration" % name, "objects": muts},
                          no_input=not found_race)

# ---------------------------------------------------------------- C19
def build_arduino(run, cxx="g++", opt="-O2", san=()):
    d = os.path.join(run.work.dir, "ard-%s%s%s" % (cxx, opt, "-san" if san else ""))
    if os.path.exists(os.path.join(d, "ard_driver")):
        return os.path.join(d, "ard_driver")
    os.makedirs(d)
    lib = os.path.join(d, "Skinny")
    shutil.copytree(os.path.join(C.REPO, "arduino", "libraries", "Skinny"), lib)
    srcs = [os.path.join(lib, f) for f in sorted(os.listdir(lib)) if f.endswith(".cpp")]
    rc, out, err = C.sh([cxx, opt] + list(san) + ["-I" + lib, "-o", os.path.join(d, "ard_driver"),
                         os.path.join(C.HARNESS, "arduino_driver.cpp")] + srcs, timeout=600)
    if rc != 0:
        raise C.BuildError("arduino-" + cxx, out + err)
    return os.path.join(d, "ard_driver")

def p_c19(run):
    ck = _imports()
    v = C.build_variant(run.work, "native", "gcc", "-O2")
    builds = [("g++", "-O2", ())] if run.tier == "quick" else \
             [("g++", "-O2", ()), ("clang++", "-O1", ("-fsanitize=address,undefined", "-fno-sanitize-recover=all")), ("g++", "-O0", ())]
    env = dict(os.environ, ASAN_OPTIONS="detect_leaks=0")
    for cxx, opt, san in builds:
        drv = build_arduino(run, cxx, opt, san)
        for cls, ascript, cscript, pairs, refs in G.gen_c19(run.rng, run.tier):
            vname = "arduino-%s%s" % (cxx, opt)
            run.stats["variants"].add(vname); run.stats["scripts"] += 1
            for l in ascript.splitlines():
                run.stats["ops"] += 1; run.stats["shapes"].add(C.shape(cls + " " + l))
            if len(run.samples) < 4:
                run.samples.append({"class": cls, "first_ops": ascript.splitlines()[:8], "c_library_ops": cscript.splitlines()[:6]})
            p = subprocess.run([drv], input=ascript, capture_output=True, text=True, env=env, timeout=600)
            m = subprocess.run([run.model, "--arduino", "/dev/stdin"], input=ascript, capture_output=True, text=True, timeout=600)
            def viol(what, extra=None):
                d = {"property": "C19", "kind": "arduino", "what": what, "class": cls, "build": vname,
                     "arduino_script": ascript.splitlines(), "c_library_script": cscript.splitlines()}
                d.update(extra or {}); run.add_violation(d)
            if p.returncode != 0:
                viol("the Arduino driver failed: " + (p.stderr.strip().splitlines() or ["?"])[-1][:300]); continue
            if m.returncode != 0 or "MODEL-UNDEFINED" in m.stdout:
                raise RuntimeError("harness error: arduino model rejected the script: " + m.stderr[-300:])
            # (1) Arduino classes == Arduino model (Coq: ModelArduino.v, proved equal to the C model)
            d = C.first_diff(p.stdout, m.stdout)
            if d is not None:
                viol("Arduino class %s disagrees with its verified model: library `%s` / model `%s`" % (cls, d[1][:150], d[2][:150]))
                continue
            # (2) Arduino classes == the C library built from /repo (and the C library == its model)
            cres = run.correspond("C-library twin of " + cls, cscript, v)
            ares = ck.parse_out(p.stdout)
            if cres is None:
                continue
            for al, cl in pairs:
                run.stats["oracle_checks"] += 1
                if ck.outhex(ares, al) != ck.outhex(cres, cl):
                    viol("Arduino %s and the C library disagree (arduino line %d / C line %d)" % (cls, al, cl),
                         {"arduino_out": ares.get(al), "c_out": cres.get(cl)}); break
            for alines, ctrs, data in refs:
                run.stats["oracle_checks"] += 1
                ks = "".join(ck.outhex(cres, l) or "" for l in ctrs)
                got = "".join(ck.outhex(ares, l) or "" for l in alines)
                exp = bytes(x ^ y for x, y in zip(bytes.fromhex(data), bytes.fromhex(ks))).hex()
                if got != exp:
                    viol("CTR<%s> with a narrow counter does not produce input xor E(counter_i)" % cls,
                         {"arduino_lines": alines}); break

# ---------------------------------------------------------------- C20
def tool_parse_hex(sarg, maxlen):
    """examples/options.c parse_hex, transcribed: returns list of bytes, or None when it reports an error (returns 0)"""
    out = []; value = 0; nibble = False
    for ch in sarg:
        if ch in "0123456789": value = value * 16 + ord(ch) - 48
        elif ch in "ABCDEF": value = value * 16 + ord(ch) - 55
        elif ch in "abcdef": value = value * 16 + ord(ch) - 87
        elif ch in " :.":
            if not nibble: continue
        else:
            return None
        nibble = not nibble
        if not nibble:
            if len(out) >= maxlen: return None
            out.append(value & 0xff); value = 0
    return out if out else None

def tool_options(argv, flags_tweak):
    """getopt("b:k:t:c:d") + validation of options.c -> None (exit 1 before any file is opened) or dict"""
    bs = 16; key = None; tw = None; dec = False; files = []
    i = 0
    while i < len(argv):
        a = argv[i]
        if a == "--": files += argv[i + 1:]; break
        if a.startswith("-") and len(a) > 1:
            j = 1
            while j < len(a):
                o = a[j]
                if o == "d": dec = True; j += 1; continue
                if o in "bktc":
                    arg = a[j + 1:] if j + 1 < len(a) else (argv[i + 1] if i + 1 < len(argv) else None)
                    if j + 1 >= len(a): i += 1
                    if arg is None: return None
                    if o == "b":
                        if arg == "64": bs = 8
                        elif arg == "128": bs = 16
                        else: return None
                    elif o == "k":
                        key = tool_parse_hex(arg, 48)
                        if key is None: return None
                    else:
                        tw = tool_parse_hex(arg, 16)
                        if tw is None: return None
                    break
                return None                       # unknown option
            i += 1
        else:
            files.append(a); i += 1            # GNU getopt permutes: non-options are collected
    if len(files) < 2 or key is None: return None
    lo, hi = (bs, 2 * bs) if flags_tweak else (bs, 3 * bs)
    if not (lo <= len(key) <= hi): return None
    if tw is not None and len(tw) > bs: return None
    return {"bs": bs, "key": bytes(key), "tw": None if tw is None else bytes(tw), "dec": dec, "in": files[0], "out": files[1]}

def p_c20(run):
    import random
    rng = run.rng
    # the tools as shipped: guard off, the repository's own makefiles
    d = run.work.copy_repo("tools")
    rc, out, err = C.sh(["make", "-C", os.path.join(d, "src"), "-j16"], timeout=600)
    rc2, out2, err2 = C.sh(["make", "-C", os.path.join(d, "examples")], timeout=600)
    if rc or rc2:
        raise C.BuildError("examples", out + err + out2 + err2)
    tmp = os.path.join(run.work.dir, "files"); os.makedirs(tmp)
    lengths = [0, 1, 7, 8, 9, 15, 16, 17, 31, 33, 63, 64, 65, 127, 128, 129, 1023, 1024, 1025, 2047, 2048, 2049, 3071, 3100]
    ncases = 60 if run.tier == "quick" else 600
    def hexarg(b, fancy):
        h = b.hex()
        if fancy == 1: h = h.upper()
        elif fancy == 2: h = ":".join(h[i:i + 2] for i in range(0, len(h), 2))
        elif fancy == 3: h = " ".join(h[i:i + 4] for i in range(0, len(h), 4))
        elif fancy == 4: h = ".".join(h[i:i + 2] for i in range(0, len(h), 2))
        return h
    cases = []
    for n in range(ncases):
        tool = rng.choice(["ctr", "ctr", "tweak", "ecb"])
        bs = rng.choice([8, 16])
        L = rng.choice(lengths) if rng.random() < 0.8 else rng.randint(0, 5000)
        data = C.rbytes(rng, L)
        kl = rng.randint(bs, (2 if tool == "tweak" else 3) * bs)
        twl = rng.choice([None, None, 1, bs // 2, bs - 1, bs])
        argv = []
        if bs == 8 or rng.random() < 0.3: argv += rng.choice([["-b", str(bs * 8)], ["-b%d" % (bs * 8)]])
        argv += rng.choice([["-k", hexarg(C.rbytes(rng, kl), rng.randrange(5))], ["-k" + hexarg(C.rbytes(rng, kl), rng.choice([0, 1]))]])
        if twl is not None and tool != "ecb":
            tw = bytearray(C.rbytes(rng, twl))
            for i in range(rng.choice([0, 0, 1, twl])): tw[twl - 1 - i] = 0xff          # carries in the tweak / counter
            argv += ["-t" if tool == "tweak" else "-c", hexarg(bytes(tw), rng.randrange(5))]
        if tool != "ctr" and rng.random() < 0.3: argv += ["-d"]
        cases.append((tool, argv, data, "valid"))
    # malformed invocations
    good_k = ["-k", "000102030405060708090a0b0c0d0e0f"]
    bad = [[], ["-b", "32"] + good_k, ["-b", "64"] + good_k + good_k[1:],       # 16-byte key is fine for -b 64; extra file name
           ["-k", "zz"], ["-k", ""], ["-k", "00" * 49], ["-k", "00" * 15], ["-b", "64", "-k", "00" * 25], ["-b64", "-k", "00" * 7],
           good_k + ["-c", "00" * 17], good_k + ["-t", "00" * 17], good_k + ["-c", "xy"], ["-x"] + good_k, good_k[:1],
           ["-b", "128"], good_k + ["-b"], ["-k", "0"], ["-k", "0:"], ["-b", "64", "-k", "00" * 16, "-c", "00" * 9],
           ["-b", "64", "-k", "00" * 17, "-t", "00"],
           # the same constraints with the options in another order: validity depends on the FINAL block size
           ["-c", "00" * 9, "-k", "00" * 16, "-b", "64"], ["-t", "00" * 16, "-b", "64", "-k", "00" * 8],
           ["-c", "00" * 12, "-b64", "-k", "00" * 8], ["-k", "00" * 25, "-b", "64"], ["-k", "00" * 48, "-b64"],
           ["-k", "00" * 17, "-t", "01", "-b", "64"], ["-b", "64", "-b", "128", "-k", "00" * 8],
           ["-b", "128", "-c", "00" * 16, "-k", "00" * 16, "-b", "64"]]
    for argv in bad:
        for tool in ("ctr", "tweak", "ecb"):
            cases.append((tool, list(argv), C.rbytes(rng, 40), "malformed"))
    for tool in ("ctr", "tweak", "ecb"):
        cases.append((tool, good_k + ["@onlyone"], b"abc", "missing-output-name"))
        cases.append((tool, good_k + ["@missing-input"], b"", "missing-input-file"))
    kinds = {}
    for idx, (tool, argv, data, kind) in enumerate(cases):
        inp = os.path.join(tmp, "in%d" % idx); outp = os.path.join(tmp, "out%d" % idx)
        open(inp, "wb").write(data)
        files = [inp, outp]
        if "@onlyone" in argv: argv = [a for a in argv if a != "@onlyone"]; files = [inp]
        if "@missing-input" in argv: argv = [a for a in argv if a != "@missing-input"]; files = [inp + ".nope", outp]
        full = argv + files
        if kind == "valid" and rng.random() < 0.2: full = files[:1] + argv + files[1:]      # getopt permutes
        exe = os.path.join(d, "examples", "skinny-" + tool)
        # the output name may already exist and be LONGER than what is about to be written: the tools must replace it, not
        # write into it (valid invocations only: for invalid ones "no output produced" is judged by the file's existence)
        if kind == "valid" and idx % 3 == 1:
            open(outp, "wb").write(bytes([0xEE]) * (len(data) + 333))
        p = subprocess.run([exe] + full, capture_output=True, timeout=60)
        got = open(outp, "rb").read() if os.path.exists(outp) else None
        run.stats["ops"] += 1; run.stats["scripts"] += 1; run.stats["oracle_checks"] += 1
        run.stats["shapes"].add("%s %s len=%d" % (tool, " ".join(a if a.startswith("-") and len(a) <= 2 else "<%d>" % len(a) for a in argv), len(data)))
        kinds[kind] = kinds.get(kind, 0) + 1
        if len(run.samples) < 5:
            run.samples.append({"tool": "skinny-" + tool, "argv": argv, "file_bytes": len(data), "exit": p.returncode,
                                "output_bytes": None if got is None else len(got)})
        def viol(what):
            run.add_violation({"property": "C20", "kind": "tool", "what": what, "tool": "skinny-" + tool, "argv": full,
                               "input_hex": data.hex(), "exit": p.returncode, "output_hex": None if got is None else got.hex()[:4000],
                               "stderr": p.stderr.decode(errors="replace")[-400:]})
        opts = tool_options(full, tool == "tweak")
        if opts is None or not os.path.exists(opts["in"]):
            # invalid options: non-zero exit and no output
            if p.returncode == 0: viol("invalid invocation exits 0")
            elif got is not None and opts is None: viol("invalid options but an output file was produced")
            continue
        if p.returncode != 0:
            viol("valid invocation exits %d" % p.returncode); continue
        # expected output from the extracted tool model (any batch size gives the same: Coq theorem)
        m = subprocess.run([run.model, "--tool", tool, str(opts["bs"]), C.hexs(opts["key"]),
                            "-" if opts["tw"] is None else C.hexs(opts["tw"]), "1" if opts["dec"] else "0",
                            str(rng.choice([1, 4, 8])), opts["in"]], capture_output=True, text=True, timeout=600)
        exp = m.stdout.strip()
        if m.returncode != 0 or exp == "none":
            raise RuntimeError("harness error: tool model rejected a case the option model accepts: %s %s" % (full, m.stderr[-200:]))
        exp_b = b"" if exp == "." else bytes.fromhex(exp)
        if got != exp_b:
            viol("output file differs from the tool model (%d bytes vs %d expected)" % (-1 if got is None else len(got), len(exp_b))); continue
        # property-level: length, involution / -d round trip, through the real binaries
        if tool == "ctr":
            if len(got) != len(data): viol("skinny-ctr output length differs from input length"); continue
            back = os.path.join(tmp, "back%d" % idx)
            subprocess.run([exe] + argv + [outp, back], capture_output=True, timeout=60)
            if open(back, "rb").read() != data: viol("running skinny-ctr twice does not restore the input")
        else:
            whole = len(data) - len(data) % opts["bs"]
            if len(got) != whole: viol("output is not the whole blocks of the input"); continue
            back = os.path.join(tmp, "back%d" % idx)
            argv2 = [a for a in argv if a != "-d"] + ([] if opts["dec"] else ["-d"])
            subprocess.run([exe] + argv2 + [outp, back], capture_output=True, timeout=60)
            if open(back, "rb").read() != data[:whole]: viol("-d does not restore the whole blocks")
    run.stats["op_kinds"] = kinds
    run.stats["variants"].add("examples as shipped (guard off, gcc -O3)")

PROPS = {"C08": p_c08, "C11": p_c11, "C12": p_c12, "C18": p_c18, "C19": p_c19, "C20": p_c20}
