"""Checks that need more than the plain driver/model comparison: C08 (valgrind), C11 (junk
independence), C12 (build matrix), C18 (threads), C19 (Arduino port), C20 (example tools)."""
import os, re, shutil, subprocess
import common as C
import gens as G

def _imports():
    import check
    return check

# ---------------------------------------------------------------- C11
def p_c11(run):
    ck = _imports()
    scripts = G.gen_mix(run.rng, run.tier)
    builds = [("native", "gcc", "-O2", ""), ("native", "gcc", "-O0", ""), ("native", "clang", "-O2", ""),
              ("native", "clang", "-O1", "msan")]
    if run.tier != "quick":
        builds += [("native", "gcc", "-O3", ""), ("native", "clang", "-O0", ""), ("w32", "gcc", "-O2", ""),
                   ("nosimd", "clang", "-O1", "msan"), ("neutral", "clang", "-O1", "msan"), ("w32", "clang", "-O1", "msan")]
    envs = [{}, {"DRIVER_STACKFILL": "165", "MALLOC_PERTURB_": "90"}, {"DRIVER_STACKFILL": "255", "MALLOC_PERTURB_": "1"}]
    if run.tier != "quick":
        envs.append({"DRIVER_STACKFILL": "0", "MALLOC_PERTURB_": "255"})
    for cfg, cc, opt, san in builds:
        v = C.build_variant(run.work, cfg, cc, opt, san)
        for item in scripts:
            title, script, meta = item[0], item[1], (item[2] if len(item) > 2 else [])
            for env in (envs if not san else envs[:2]):
                res = run.correspond(title + (" env=%s" % env if env else ""), script, v, env_extra=env)
                if res is not None and meta:
                    ck.apply_meta(run, title, v, script, res, meta)
    run.notes.append("each script executed in separate processes with different stack pre-fill (DRIVER_STACKFILL), "
                     "MALLOC_PERTURB_, compilers and optimisation levels, and under MemorySanitizer; every result line "
                     "must equal the deterministic model's")

# ---------------------------------------------------------------- C12
def p_c12(run):
    ck = _imports()
    scripts = G.gen_mix(run.rng, run.tier)
    cfgs = list(C.CONFIGS)
    builds = [(c, "gcc", "-O2") for c in cfgs]
    if run.tier == "quick":
        builds += [("native", "clang", "-O2"), ("native", "gcc", "-O0"), ("native", "gcc", "-O3"), ("native", "clang", "-O0"),
                   ("w32noua", "clang", "-O3"), ("neutral32", "clang", "-O1"), ("nosimd", "clang", "-O2"), ("neutral", "gcc", "-O3")]
    else:
        builds = [(c, cc, o) for c in cfgs for cc in ("gcc", "clang") for o in ("-O0", "-O1", "-O2", "-O3")]
    for cfg, cc, opt in builds:
        v = C.build_variant(run.work, cfg, cc, opt, "")
        for item in scripts:
            title, script, meta = item[0], item[1], (item[2] if len(item) > 2 else [])
            res = run.correspond(title, script, v)
            if res is not None and meta:
                ck.apply_meta(run, title, v, script, res, meta)
        # keep the scratch space small: the variant's tree is no longer needed
        shutil.rmtree(v.dir, ignore_errors=True)
    run.notes.append("builds: %d (configuration switches x compiler x optimisation level)" % len(builds))

# ---------------------------------------------------------------- C08
def ct_scripts(rng, tier):
    """public-parameter combinations; the secret values are whatever the generator put there (memcheck tracks
    them symbolically as undefined bits).  No img ops: they would print secret-derived bytes."""
    out = []
    for t in G.gen_mix(rng, tier):
        lines = [l for l in t[1].splitlines()]
        lines = ["#" if re.match(r"\S+ img ", l) else l for l in lines]
        out.append((t[0], "\n".join(lines) + "\n"))
    return out

def build_ct(run, cfg, cc, opt):
    v = C.build_variant(run.work, cfg, cc, opt, "", extra=("-g",))
    drv = v.driver + "_ct"
    if not os.path.exists(drv):
        rc, out, err = C.sh([cc, "-std=gnu99", opt, "-g", "-DDRIVER_WITH_VALGRIND", "-I" + os.path.join(v.dir, "include"),
                             "-I" + os.path.join(v.dir, "src"), "-o", drv, os.path.join(C.HARNESS, "driver.c"),
                             os.path.join(v.dir, "src", "libskinny.a"), "-Wl,--wrap=calloc", "-Wl,--wrap=free"])
        if rc != 0:
            raise C.BuildError(v.name + "_ct", out + err)
    v2 = C.Variant(v.name + "+memcheck", drv, v.has128, v.has256, dict(v.env, DRIVER_CT="1"))
    v2.dir = v.dir
    return v2

def p_c08(run):
    builds = [("native", "gcc", "-O2"), ("nosimd", "gcc", "-O2")] if run.tier == "quick" else \
             [("native", "gcc", "-O2"), ("native", "gcc", "-O3"), ("native", "clang", "-O2"), ("w32", "gcc", "-O2"),
              ("nosimd", "gcc", "-O2"), ("nosimd32", "gcc", "-O2"), ("neutral", "gcc", "-O2"), ("neutral32", "clang", "-O2"),
              ("noua", "gcc", "-O2"), ("nosimd", "gcc", "-O0")]
    scripts = ct_scripts(run.rng, run.tier)
    wrapper = ("valgrind", "-q", "--error-exitcode=66", "--track-origins=no")
    from concurrent.futures import ThreadPoolExecutor
    for cfg, cc, opt in builds:
        v = build_ct(run, cfg, cc, opt)
        def one(item):
            return item, C.run_driver(v, item[1], wrapper=wrapper, timeout=900)
        with ThreadPoolExecutor(max_workers=C.NCPU) as ex:
            results = list(ex.map(one, scripts))
        for (title, script), (rc, out, err) in results:
            run.account(title, script, v)
            run.stats["oracle_checks"] += 1
            mrc, mout, merr = run.model_out(v, script)
            if rc == 66 or "depends on uninitialised" in err or "Use of uninitialised" in err:
                first = [l for l in err.splitlines() if "uninitialised" in l][:1]
                where = [l.strip() for l in err.splitlines() if re.search(r"(by|at) 0x", l)][:4]
                # locate the op: the driver flushes one result line per op, the last line printed precedes the report
                run.add_violation({"property": "C08", "kind": "secret-dependent branch or address (valgrind memcheck, secrets marked undefined)",
                                   "what": "a branch or memory address depends on key/tweak/counter/data bytes (%s)" % title,
                                   "variant": v.name, "wrapper": list(wrapper), "detail": (first + where),
                                   "script": script.splitlines(), "env": {"DRIVER_CT": "1"}, "seed": run.seed, "tier": run.tier})
            elif rc != 0:
                run.add_violation({"property": "C08", "kind": "crash", "what": "driver failed under valgrind (%s)" % title,
                                   "variant": v.name, "detail": err[-800:], "script": script.splitlines()})
            elif C.first_diff(out, mout) is not None:
                run.report_mismatch(title, C.Mismatch("diff", v, script, out, mout, ""), wrapper=wrapper)
    run.notes.append("every script run under valgrind memcheck with key, tweak, counter, input and tweak-array bytes marked "
                     "undefined: any conditional jump or address computed from them is reported")

# ---------------------------------------------------------------- C18
def p_c18(run):
    import json, tempfile
    # (T) inventory of objects with static storage duration, regenerated from the current source; obligation: all const
    v0 = C.build_variant(run.work, "native", "gcc", "-O2")
    gen = os.path.join(run.work.dir, "gen"); os.makedirs(gen, exist_ok=True)
    mutable = []
    for name, flags in (("native", []), ("nosimd", ["-DSKINNY_C_VERIF", "-DSKINNY_C_VERIF_VEC128=0", "-DSKINNY_C_VERIF_VEC256=0"]),
                        ("w32neutral", ["-DSKINNY_C_VERIF", "-DSKINNY_C_VERIF_64BIT=0", "-DSKINNY_C_VERIF_LITTLE_ENDIAN=0",
                                        "-DSKINNY_C_VERIF_VEC128=0", "-DSKINNY_C_VERIF_VEC256=0"])):
        gv = os.path.join(gen, "Globals_%s.v" % name)
        rc, out, err = C.sh(["python3", os.path.join(C.VERIF, "translator", "globals.py"), v0.dir, gv] + flags)
        if rc != 0:
            run.add_violation({"property": "C18", "kind": "translator", "what": "globals.py cannot process the source (%s)" % name,
                               "log": (out + err)[-2000:]}, no_input=True)
            continue
        rc2, out2, err2 = C.sh(["coqc", gv], cwd=gen, timeout=300)
        run.stats["oracle_checks"] += 1
        run.notes.append("Globals_%s.v: %s; no_mutable_globals %s" % (name, out.strip().splitlines()[0], "proved" if rc2 == 0 else "FAILED"))
        if rc2 != 0:
            mutable.append((name, [l for l in out.splitlines() if l.startswith("MUTABLE")]))
    # (C) thread-sanitizer runs: concurrent inits, distinct objects in >= 8 threads, shared read-only objects
    found_race = False
    builds = [("native", "gcc", "-O2"), ("nosimd", "gcc", "-O1")] if run.tier == "quick" else \
             [("native", "gcc", "-O2"), ("nosimd", "gcc", "-O1"), ("native", "clang", "-O2"), ("w32", "gcc", "-O0"), ("neutral", "clang", "-O1")]
    for cfg, cc, opt in builds:
        v = C.build_variant(run.work, cfg, cc, opt, "tsan")
        exe = os.path.join(v.dir, "threads")
        rc, out, err = C.sh([cc, opt, "-g", "-fsanitize=thread", "-I" + os.path.join(v.dir, "include"), "-o", exe,
                             os.path.join(C.HARNESS, "threads.c"), os.path.join(v.dir, "src", "libskinny.a"), "-lpthread"])
        if rc != 0:
            raise C.BuildError(v.name + "+threads", out + err)
        env = dict(os.environ, TSAN_OPTIONS="exitcode=66:halt_on_error=0")
        for nth, iters in ((8, 40), (16, 20), (3, 60)) if run.tier == "quick" else ((8, 200), (16, 100), (32, 40), (2, 400)):
            p = subprocess.run([exe, str(nth), str(iters)], capture_output=True, text=True, env=env, timeout=1200)
            run.stats["scripts"] += 1; run.stats["ops"] += nth * iters * 40; run.stats["variants"].add(v.name)
            run.stats["shapes"].add("threads %d x %d on %s" % (nth, iters, v.name)); run.stats["oracle_checks"] += 1
            if len(run.samples) < 3:
                run.samples.append({"cmd": "threads %d %d" % (nth, iters), "variant": v.name, "output": p.stdout.splitlines()[:3]})
            if p.returncode != 0 or "MISMATCH" in p.stdout or "ThreadSanitizer" in p.stderr:
                found_race = True
                run.add_violation({"property": "C18", "kind": "data race / thread-dependent result",
                                   "what": "concurrent use differs from sequential use or ThreadSanitizer reports a race",
                                   "variant": v.name, "cmd": "harness/threads.c %d %d (TSan build)" % (nth, iters),
                                   "stdout": p.stdout.splitlines()[:20], "stderr": p.stderr.splitlines()[:40]})
                break
    for name, muts in mutable:
        run.add_violation({"property": "C18", "kind": "proof", "what": "Theorem no_mutable_globals (generated Globals_%s.v) no longer holds: "
                           "the library defines mutable objects with static storage duration" % name, "objects": muts},
                          no_input=not found_race)

PROPS = {"C08": p_c08, "C11": p_c11, "C12": p_c12, "C18": p_c18}
