"""Shared machinery of the checks: scratch work dirs, library/driver builds,
Coq build, model runner, differential runs, shrinking, evidence files."""
import hashlib, json, os, random, re, shutil, subprocess, sys, tempfile, time
from concurrent.futures import ThreadPoolExecutor

VERIF = os.path.dirname(os.path.dirname(os.path.abspath(__file__)))
REPO = os.environ.get("SKINNY_REPO", "/repo")
COQ = os.path.join(VERIF, "coq")
BUILD = os.path.join(VERIF, "build")          # git-ignored cache of /verif-only artefacts
HARNESS = os.path.join(VERIF, "harness")
NCPU = 16

def sh(cmd, timeout=600, cwd=None, env=None, inp=None):
    """Run a command (list or shell string); returns (rc, stdout, stderr)."""
    p = subprocess.run(cmd, shell=isinstance(cmd, str), cwd=cwd, env=env, input=inp,
                       stdout=subprocess.PIPE, stderr=subprocess.PIPE, timeout=timeout,
                       universal_newlines=True, errors="replace")
    return p.returncode, p.stdout, p.stderr

# ----------------------------------------------------------------------
# Coq
def coq_make(targets, timeout=1500):
    """Full .vo build of the given targets (never -vos).  Returns (ok, log)."""
    if not os.path.exists(os.path.join(COQ, "Makefile")):
        sh("coq_makefile -f _CoqProject -o Makefile", cwd=COQ)
    rc, out, err = sh(["make", "-k", "-j%d" % NCPU] + targets, cwd=COQ, timeout=timeout)
    return rc == 0, out + err

FORBIDDEN = re.compile(r"\b(Admitted|admit|Axiom|Parameter|Conjecture|Unset Guard Checking|"
                       r"bypass_check|Admit Obligations|type-in-type|impredicative-set)\b")
def coq_hygiene():
    """No Admitted/admit/Axiom/... anywhere in the development (comments excluded)."""
    bad = []
    for root, _, files in os.walk(COQ):
        for f in files:
            if not f.endswith(".v"):
                continue
            txt = open(os.path.join(root, f), errors="replace").read()
            txt = re.sub(r"\(\*.*?\*\)", "", txt, flags=re.S)
            for m in FORBIDDEN.finditer(txt):
                bad.append("%s: %s" % (f, m.group(0)))
    return bad

def property_theorems(prop):
    """Names of the theorems stated in Properties_<prop>.v and the assumptions printed."""
    path = os.path.join(COQ, "Properties_%s.v" % prop)
    txt = open(path).read()
    return re.findall(r"^\s*(?:Theorem|Corollary|Lemma)\s+(\w+)", txt, flags=re.M)

def print_assumptions(prop):
    """Re-run coqc on the property file alone to capture its Print Assumptions output."""
    rc, out, err = sh(["coqc", "-Q", ".", "Skinny", "Properties_%s.v" % prop], cwd=COQ, timeout=900)
    closed = out.count("Closed under the global context")
    axioms = [l.strip() for l in out.splitlines()
              if l.strip() and "Closed under" not in l and not l.startswith(" ")]
    return rc == 0, closed, out

# ----------------------------------------------------------------------
# Model runner (extracted OCaml)
def build_model():
    """Extract the Coq model and compile the runner; cached by source hash."""
    os.makedirs(BUILD, exist_ok=True)
    h = hashlib.sha256()
    # the sources the extracted model is made of (Extract.v and what it imports), not the proof files
    MODEL_SRCS = ["Bits.v", "SpecSkinny.v", "SpecMantis.v", "ModelCipher.v", "ModelCtr.v", "ModelCpu.v", "Api.v", "ModelArduino.v",
                  "ArdApi.v", "ModelTools.v", "Extract.v"]
    srcs = MODEL_SRCS
    for f in srcs:
        h.update(open(os.path.join(COQ, f), "rb").read())
    h.update(open(os.path.join(HARNESS, "model_main.ml"), "rb").read())
    tag = h.hexdigest()[:16]
    exe = os.path.join(BUILD, "model")
    stamp = os.path.join(BUILD, "model.stamp")
    if os.path.exists(exe) and os.path.exists(stamp) and open(stamp).read() == tag:
        return exe
    ok, log = coq_make(["Api.vo", "ArdApi.vo", "ModelTools.vo"])
    if not ok:
        raise RuntimeError("Coq model does not build:\n" + log[-3000:])
    import tempfile
    d = tempfile.mkdtemp(prefix="extract_", dir=BUILD)          # private to this process: concurrent checks do not collide
    rc, out, err = sh(["coqc", "-Q", COQ, "Skinny", os.path.join(COQ, "Extract.v")], cwd=d)
    if rc != 0:
        raise RuntimeError("extraction failed:\n" + out + err)
    shutil.copy(os.path.join(HARNESS, "model_main.ml"), d)
    rc, out, err = sh("ocamlfind ocamlopt -w -a -inline 100 model.mli model.ml model_main.ml -o model",
                      cwd=d)
    if rc != 0:
        raise RuntimeError("ocaml build failed:\n" + out + err)
    tmp_exe = exe + ".%d.tmp" % os.getpid()
    shutil.copy(os.path.join(d, "model"), tmp_exe); os.replace(tmp_exe, exe)    # atomic: a running model is never overwritten in place
    # coqc leaves Extract.vo/.glob beside the source; remove them
    for ext in (".vo", ".glob", ".vok", ".vos"):
        try: os.remove(os.path.join(COQ, "Extract" + ext))
        except OSError: pass
    tmp_stamp = stamp + ".%d.tmp" % os.getpid()
    open(tmp_stamp, "w").write(tag); os.replace(tmp_stamp, stamp)
    shutil.rmtree(d, ignore_errors=True)
    return exe

# ----------------------------------------------------------------------
# Work dir + library/driver builds
class Work:
    def __init__(self):
        self.dir = tempfile.mkdtemp(prefix="skv-", dir=os.environ.get("SKV_TMP", "/var/tmp"))
        self.variants = {}
    def cleanup(self):
        shutil.rmtree(self.dir, ignore_errors=True)
    def copy_repo(self, name):
        d = os.path.join(self.dir, name)
        os.makedirs(d)
        for sub in ("src", "include", "examples", "test"):
            shutil.copytree(os.path.join(REPO, sub), os.path.join(d, sub),
                            ignore=shutil.ignore_patterns("*.o", "*.a", "test-skinny", "test-perf",
                                                          "skinny-ctr", "skinny-ecb", "skinny-tweak"))
        shutil.copy(os.path.join(REPO, "options.mak"), d)
        shutil.copy(os.path.join(REPO, "Makefile"), d)
        return d

CONFIGS = {
    # name: (defines, has128, has256)
    "native":  ([], 1, 1),
    "w32":     (["-DSKINNY_C_VERIF_64BIT=0"], 1, 1),
    "noua":    (["-DSKINNY_C_VERIF_UNALIGNED=0"], 1, 1),
    "w32noua": (["-DSKINNY_C_VERIF_64BIT=0", "-DSKINNY_C_VERIF_UNALIGNED=0"], 1, 1),
    "no256":   (["-DSKINNY_C_VERIF_VEC256=0"], 1, 0),          # only the 128-bit SIMD back end compiled in (VEC256_CFLAGS empty)
    "nosimd":  (["-DSKINNY_C_VERIF_VEC128=0", "-DSKINNY_C_VERIF_VEC256=0"], 0, 0),
    "nosimd32": (["-DSKINNY_C_VERIF_VEC128=0", "-DSKINNY_C_VERIF_VEC256=0", "-DSKINNY_C_VERIF_64BIT=0"], 0, 0),
    "nosimdnoua": (["-DSKINNY_C_VERIF_VEC128=0", "-DSKINNY_C_VERIF_VEC256=0", "-DSKINNY_C_VERIF_UNALIGNED=0"], 0, 0),
    "nosimd32noua": (["-DSKINNY_C_VERIF_VEC128=0", "-DSKINNY_C_VERIF_VEC256=0", "-DSKINNY_C_VERIF_64BIT=0",
                      "-DSKINNY_C_VERIF_UNALIGNED=0"], 0, 0),
    "neutral": (["-DSKINNY_C_VERIF_VEC128=0", "-DSKINNY_C_VERIF_VEC256=0", "-DSKINNY_C_VERIF_LITTLE_ENDIAN=0"], 0, 0),
    "neutral32": (["-DSKINNY_C_VERIF_VEC128=0", "-DSKINNY_C_VERIF_VEC256=0", "-DSKINNY_C_VERIF_LITTLE_ENDIAN=0",
                   "-DSKINNY_C_VERIF_64BIT=0"], 0, 0),
    "neutralnoua": (["-DSKINNY_C_VERIF_VEC128=0", "-DSKINNY_C_VERIF_VEC256=0", "-DSKINNY_C_VERIF_LITTLE_ENDIAN=0",
                     "-DSKINNY_C_VERIF_UNALIGNED=0"], 0, 0),
    "neutral32noua": (["-DSKINNY_C_VERIF_VEC128=0", "-DSKINNY_C_VERIF_VEC256=0", "-DSKINNY_C_VERIF_LITTLE_ENDIAN=0",
                       "-DSKINNY_C_VERIF_64BIT=0", "-DSKINNY_C_VERIF_UNALIGNED=0"], 0, 0),
}
SAN = {
    "": [],
    "asan": ["-fsanitize=address,undefined", "-fno-sanitize=alignment", "-fno-sanitize-recover=all", "-g"],
    "msan": ["-fsanitize=memory", "-fno-sanitize-recover=all", "-g"],
    "tsan": ["-fsanitize=thread", "-g"],
}

class Variant:
    def __init__(self, name, driver, has128, has256, env):
        self.name, self.driver, self.has128, self.has256, self.env = name, driver, has128, has256, env

def build_variant(work, cfg="native", cc="gcc", opt="-O2", san="", extra=()):
    """Build libskinny.a (hooks on) + driver for one variant.  Cached per work dir."""
    name = "%s-%s%s%s" % (cfg, cc, opt, ("-" + san) if san else "") + ("".join(extra) and "-x")
    if name in work.variants:
        return work.variants[name]
    defs, h128, h256 = CONFIGS[cfg]
    d = work.copy_repo(name)
    flags = [opt, "-DSKINNY_C_VERIF"] + defs + SAN[san] + list(extra)
    rc, out, err = sh(["make", "-C", os.path.join(d, "src"), "-j%d" % NCPU, "CC=" + cc,
                       "COMMON_CFLAGS=" + " ".join(flags), "libskinny.a"], timeout=600)
    if rc != 0:
        raise BuildError(name, out + err)
    drv = os.path.join(d, "driver")
    cmd = [cc, "-std=gnu99", opt] + SAN[san] + list(extra) + [
        "-I" + os.path.join(d, "include"), "-I" + os.path.join(d, "src"), "-o", drv,
        os.path.join(HARNESS, "driver.c"), os.path.join(d, "src", "libskinny.a"),
        "-Wl,--wrap=calloc", "-Wl,--wrap=free"]
    rc, out, err = sh(cmd, timeout=600)
    if rc != 0:
        raise BuildError(name, out + err)
    env = dict(os.environ)
    env["ASAN_OPTIONS"] = "detect_leaks=0:abort_on_error=0:exitcode=66"
    env["UBSAN_OPTIONS"] = "halt_on_error=1:exitcode=66"
    env["MSAN_OPTIONS"] = "exitcode=66"
    v = Variant(name, drv, h128, h256, env)
    v.dir = d
    work.variants[name] = v
    return v

class BuildError(Exception):
    def __init__(self, name, log):
        Exception.__init__(self, "build of variant %s failed" % name)
        self.name, self.log = name, log

_cpuinfo = {}
def cpuinfo(variant):
    if "v" not in _cpuinfo:
        rc, out, err = sh([variant.driver, "--cpuinfo"], env=variant.env)
        _cpuinfo["v"] = out.split()
    return _cpuinfo["v"]

# ----------------------------------------------------------------------
# Running a script on driver and model
def run_driver(variant, script, timeout=300, env_extra=None, wrapper=()):
    env = dict(variant.env)
    if env_extra:
        env.update(env_extra)
    try:
        p = subprocess.run(list(wrapper) + [variant.driver], input=script, stdout=subprocess.PIPE,
                           stderr=subprocess.PIPE, env=env, timeout=timeout, universal_newlines=True,
                           errors="replace")
        return p.returncode, p.stdout, p.stderr
    except subprocess.TimeoutExpired:
        return -9, "", "timeout"

def run_model(model, variant, script, timeout=600):
    ci = cpuinfo(variant)
    args = [model, "-", str(variant.has128), str(variant.has256)] + ci
    p = subprocess.run(args, input=script, stdout=subprocess.PIPE, stderr=subprocess.PIPE,
                       timeout=timeout, universal_newlines=True, errors="replace")
    return p.returncode, p.stdout, p.stderr

def first_diff(a, b):
    la, lb = a.splitlines(), b.splitlines()
    for i in range(max(len(la), len(lb))):
        x = la[i] if i < len(la) else "<missing>"
        y = lb[i] if i < len(lb) else "<missing>"
        if x != y:
            return i, x, y
    return None

class Mismatch:
    def __init__(self, kind, variant, script, lib_out, model_out, detail):
        self.kind, self.variant, self.script = kind, variant, script
        self.lib_out, self.model_out, self.detail = lib_out, model_out, detail

def compare(model, variant, script, wrapper=(), env_extra=None):
    """Run the script on library and model.  Returns None if equal, else a Mismatch."""
    rc, out, err = run_driver(variant, script, wrapper=wrapper, env_extra=env_extra)
    mrc, mout, merr = run_model(model, variant, script)
    if mrc != 0 or "MODEL-UNDEFINED" in mout:
        return Mismatch("harness", variant, script, out, mout,
                        "model runner rejected the script: " + (merr or mout)[-400:])
    if rc == 2:
        return Mismatch("harness", variant, script, out, mout, "driver rejected the script: " + err[-400:])
    if rc != 0:
        return Mismatch("crash", variant, script, out, mout,
                        "driver exit status %d: %s" % (rc, (err.strip().splitlines() or [""])[-1][:300]) )
    d = first_diff(out, mout)
    if d is None:
        return None
    return Mismatch("diff", variant, script, out, mout,
                    "first differing line: library `%s` / model `%s`" % (d[1], d[2]))

def shrink(script, still_fails, max_tests=120):
    """Delta debugging on lines; removed lines become comments so numbering is kept."""
    lines = script.splitlines()
    idx = [i for i, l in enumerate(lines) if l and not l.startswith("#")]
    tests = 0
    chunk = max(1, len(idx) // 2)
    while chunk >= 1 and tests < max_tests:
        i = 0
        progressed = False
        while i < len(idx) and tests < max_tests:
            cand = list(lines)
            for j in idx[i:i + chunk]:
                cand[j] = "#"
            tests += 1
            if still_fails("\n".join(cand) + "\n"):
                lines = cand
                idx = idx[:i] + idx[i + chunk:]
                progressed = True
            else:
                i += chunk
        if chunk == 1 and not progressed:
            break
        chunk = max(1, chunk // 2) if chunk > 1 else (1 if progressed else 0)
    return "\n".join(lines) + "\n"

# ----------------------------------------------------------------------
# helpers for generators
def hexs(b):
    return b.hex() if len(b) else "."
def rbytes(rng, n):
    return bytes(rng.getrandbits(8) for _ in range(n))

def shape(line):
    """Abstract an op line to its 'shape' (hex payloads replaced by their length) for distinctness counts."""
    return " ".join(("h%d" % (len(t) // 2)) if re.fullmatch(r"[0-9a-f]{6,}", t) else t for t in line.split())
