"""Script generators, one family per property.  Every random choice comes from the
rng passed in (seeded from VERIF_SEED).  Generators return a list of (title, script) pairs."""
from common import hexs, rbytes

BS = {"128": 16, "64": 8}
ROUNDS = {"128": 56, "64": 40}

class S:
    """Script builder."""
    def __init__(self):
        self.lines = []
        self.nid = 0
    def add(self, line):
        self.lines.append(line)
        return len(self.lines)          # 1-based line number of the op just added
    def new(self, kind, fill=0):
        self.nid += 1
        self.add("new %s %d %02x" % (kind, self.nid, fill))
        return self.nid
    def text(self):
        return "\n".join(self.lines) + "\n"

def interesting_blocks(rng, n, count):
    out = [bytes(n), bytes([0xff]) * n]
    for i in range(n * 8):                      # single-bit blocks
        b = bytearray(n); b[i // 8] = 0x80 >> (i % 8); out.append(bytes(b))
    out += [rbytes(rng, n) for _ in range(count)]
    return out

def sweep_blocks(rng, n):
    """every byte value in every state position, over a random background"""
    base = rbytes(rng, n)
    out = []
    for pos in range(n):
        for v in range(256):
            b = bytearray(base); b[pos] = v; out.append(bytes(b))
    return out

VECTORS_SK = [
    ("64", "f5269826fc681238", "06034f957724d19d"),
    ("64", "9eb93640d088da6376a39d1c8bea71e1", "cf16cfe8fd0f98aa"),
    ("64", "ed00c85b120d68618753e24bfd908f60b2dbb41b422dfcd0", "530c61d35e8663c3"),
    ("128", "4f55cfb0520cac52fd92c15f37073e93", "f20adb0eb08b648a3b2eeed1f0adda14"),
    ("128", "009cec81605d4ac1d2ae9e3085d7a1f31ac123ebfc00fddcf01046ceeddfcab3", "3a0c47767a26a68dd382a695e7022e25"),
    ("128", "df889548cfc7ea52d296339301797449ab588a34a47f1ab2dfe9c8293fbea9a5ab1afac2611012cd8cef952618c3ebe8",
     "a3994b66ad85a3459f44e92b08f550cb"),
]

# ---------------------------------------------------------------- C01
def gen_c01(rng, tier):
    scripts = []
    nrand = 40 if tier in ("quick", "light") else 400
    for w in ("128", "64"):
        bs = BS[w]
        for z in (1, 2, 3):
            s = S()
            k = s.new("k" + w, rng.choice([0, 0xa5, 0xff]))
            keys = [bytes(bs * z), bytes([0xff]) * (bs * z)]
            for i in rng.sample(range(bs * z * 8), 6):
                b = bytearray(bs * z); b[i // 8] = 0x80 >> (i % 8); keys.append(bytes(b))
            keys += [rbytes(rng, bs * z) for _ in range(3 if tier in ("quick", "light") else 12)]
            for w2, kh, ph in VECTORS_SK:
                if w2 == w and len(kh) == 2 * bs * z:
                    s.add("k%s setkey %d %s %d" % (w, k, kh, bs * z))
                    s.add("k%s enc %d %s" % (w, k, ph))
                    s.add("k%s dec %d %s" % (w, k, ph))
            for key in keys:
                s.add("k%s setkey %d %s %d" % (w, k, hexs(key), bs * z))
                s.add("k%s img %d" % (w, k))
                for b in interesting_blocks(rng, bs, nrand)[: (30 if tier in ("quick", "light") else 10**6)]:
                    s.add("k%s enc %d %s" % (w, k, hexs(b)))
                    s.add("k%s dec %d %s" % (w, k, hexs(b)))
            if tier == "light":
                scripts.append(("skinny%s z=%d" % (w, z), s.text())); continue
            # one-entry S-box errors: every byte value in every position
            s.add("k%s setkey %d %s %d" % (w, k, hexs(rbytes(rng, bs * z)), bs * z))
            for b in sweep_blocks(rng, bs):
                s.add("k%s enc %d %s" % (w, k, hexs(b)))
            for b in sweep_blocks(rng, bs)[:: (4 if tier == "quick" else 1)]:
                s.add("k%s dec %d %s" % (w, k, hexs(b)))
            scripts.append(("skinny%s z=%d" % (w, z), s.text()))
    return scripts

# ---------------------------------------------------------------- C02
MKEY = "92f09952c625e3e9d7a060f714c0292b"
MTW = "ba912e6f1055fed2"
MVEC = {5: "3b5c77a4921f9718", 6: "d6522035c1c0c6c1", 7: "60e4345731 1936fd".replace(" ", ""), 8: "308e8a07f168f517"}
def gen_c02(rng, tier):
    scripts = []
    nrand = 30 if tier in ("quick", "light") else 300
    for r in (5, 6, 7, 8):
        for mode in (1, 0):
            s = S()
            m = s.new("mk", rng.choice([0, 0x5a]))
            s.add("mk setkey %d %s 16 %d %d" % (m, MKEY, r, mode))
            s.add("mk crypt %d %s" % (m, MVEC[r]))                   # fresh schedule: zero tweak
            s.add("mk settweak %d %s 8" % (m, MTW))
            s.add("mk crypt %d %s" % (m, MVEC[r]))
            s.add("mk cryptt %d %s %s" % (m, MVEC[r], MTW))
            keys = [bytes(16), bytes([0xff]) * 16] + [rbytes(rng, 16) for _ in range(3 if tier in ("quick", "light") else 10)]
            for i in rng.sample(range(128), 4):
                b = bytearray(16); b[i // 8] = 0x80 >> (i % 8); keys.append(bytes(b))
            for key in keys:
                s.add("mk setkey %d %s 16 %d %d" % (m, hexs(key), r, mode))
                s.add("mk img %d" % m)
                s.add("mk crypt %d %s" % (m, hexs(rbytes(rng, 8))))
                for tw in [bytes(8), bytes([0xff]) * 8] + [rbytes(rng, 8) for _ in range(4)]:
                    blk = rbytes(rng, 8)
                    s.add("mk settweak %d %s 8" % (m, hexs(tw)))
                    a = s.add("mk crypt %d %s" % (m, hexs(blk)))
                    s.add("mk cryptt %d %s %s" % (m, hexs(blk), hexs(tw)))
                s.add("mk settweak %d - 8" % m)
                s.add("mk crypt %d %s" % (m, hexs(rbytes(rng, 8))))
                for b in interesting_blocks(rng, 8, nrand)[: (40 if tier in ("quick", "light") else 10**6)]:
                    s.add("mk cryptt %d %s %s" % (m, hexs(b), hexs(rbytes(rng, 8))))
            if tier == "light":
                scripts.append(("mantis r=%d mode=%d" % (r, mode), s.text())); continue
            s.add("mk setkey %d %s 16 %d %d" % (m, hexs(rbytes(rng, 16)), r, mode))
            tw = rbytes(rng, 8)
            for b in sweep_blocks(rng, 8)[:: (2 if tier == "quick" else 1)]:
                s.add("mk cryptt %d %s %s" % (m, hexs(b), hexs(tw)))
            for t in sweep_blocks(rng, 8)[:: (4 if tier == "quick" else 1)]:
                s.add("mk cryptt %d %s %s" % (m, hexs(b), hexs(t)))
            scripts.append(("mantis r=%d mode=%d" % (r, mode), s.text()))
    return scripts

# ---------------------------------------------------------------- C03
def gen_c03(rng, tier):
    """round trips through every entry point; results are checked at property level by the
    caller (meta: list of (line_of_restored_output, expected hex))"""
    scripts = []
    n = 25 if tier == "quick" else 250
    for w in ("128", "64"):
        bs = BS[w]
        s = S(); meta = []
        k = s.new("k" + w); t = s.new("t" + w); p = s.new("p" + w)
        s.add("p%s init %d" % (w, p))
        for _ in range(n):
            ksz = rng.choice([bs, 2 * bs, 3 * bs])
            key = rbytes(rng, ksz)
            s.add("k%s setkey %d %s %d" % (w, k, hexs(key), ksz))
            s.add("p%s setkey %d %s %d" % (w, p, hexs(key), ksz))
            tsz = rng.choice([bs, 2 * bs])
            s.add("t%s settk %d %s %d" % (w, t, hexs(rbytes(rng, tsz)), tsz))
            tl = rng.randint(1, bs)
            s.add("t%s settweak %d %s %d" % (w, t, hexs(rbytes(rng, tl)), tl))
            for kind, o in (("k", k), ("t", t)):
                b = rbytes(rng, bs)
                a = s.add("%s%s enc %d %s" % (kind, w, o, hexs(b)))
                r_ = s.add("%s%s dec %d @%d" % (kind, w, o, a)); meta.append((r_, hexs(b)))
                a = s.add("%s%s dec %d %s" % (kind, w, o, hexs(b)))
                r_ = s.add("%s%s enc %d @%d" % (kind, w, o, a)); meta.append((r_, hexs(b)))
            nb = rng.choice([0, 1, 2, 3, 4, 5, 7, 8, 9, 12, 15, 16, 17, 24, 25, 33])
            data = rbytes(rng, nb * bs)
            a = s.add("p%s enc %d %s %d" % (w, p, hexs(data), nb * bs))
            r_ = s.add("p%s dec %d @%d %d" % (w, p, a, nb * bs)); meta.append((r_, hexs(data)))
            a = s.add("p%s dec %d %s %d" % (w, p, hexs(data), nb * bs))
            r_ = s.add("p%s enc %d @%d %d" % (w, p, a, nb * bs)); meta.append((r_, hexs(data)))
            # the same through output == input (a vector back end that re-reads blocks it has already overwritten transforms them
            # twice), ragged counts above one parallel group included
            nb = rng.choice([5, 9, 11, 12, 13, 15, 17, 21, 25, 27])
            data = rbytes(rng, nb * bs)
            f1, f2 = rng.choice([(" inplace", " inplace"), ("", " inplace"), (" inplace", "")])
            a = s.add("p%s enc %d %s %d%s" % (w, p, hexs(data), nb * bs, f1))
            r_ = s.add("p%s dec %d @%d %d%s" % (w, p, a, nb * bs, f2)); meta.append((r_, hexs(data)))
            a = s.add("p%s dec %d %s %d%s" % (w, p, hexs(data), nb * bs, f2))
            r_ = s.add("p%s enc %d @%d %d%s" % (w, p, a, nb * bs, f1)); meta.append((r_, hexs(data)))
        s.add("p%s cleanup %d" % (w, p))
        scripts.append(("skinny%s round trips" % w, s.text(), meta))
    # MANTIS: swap algebra
    s = S(); meta = []
    m = s.new("mk"); m2 = s.new("mk"); p = s.new("mp")
    s.add("mp init %d" % p)
    for _ in range(n):
        key = rbytes(rng, 16); r = rng.randint(5, 8); mode = rng.randint(0, 1)
        s.add("mk setkey %d %s 16 %d %d" % (m, hexs(key), r, mode))
        s.add("mp setkey %d %s 16 %d %d" % (p, hexs(key), r, mode))
        # both objects still hold the tweak of the previous iteration: keying afresh must give the zero tweak in
        # either mode, so the other mode inverts this one before any tweak is set
        b0 = rbytes(rng, 8)
        a0 = s.add("mk crypt %d %s" % (m, hexs(b0)))
        s.add("mk setkey %d %s 16 %d %d" % (m2, hexs(key), r, 1 - mode))
        r_ = s.add("mk crypt %d @%d" % (m2, a0)); meta.append((r_, hexs(b0)))
        tw = rbytes(rng, 8)
        s.add("mk settweak %d %s 8" % (m, hexs(tw)))
        b = rbytes(rng, 8)
        a = s.add("mk crypt %d %s" % (m, hexs(b)))
        s.add("mk swap %d" % m)
        r_ = s.add("mk crypt %d @%d" % (m, a)); meta.append((r_, hexs(b)))
        # switching once = keying afresh in the other mode and re-applying the tweak
        s.add("mk setkey %d %s 16 %d %d" % (m2, hexs(key), r, 1 - mode))
        s.add("mk settweak %d %s 8" % (m2, hexs(tw)))
        i1 = s.add("mk img %d" % m); i2 = s.add("mk img %d" % m2); meta.append(("same", i1, i2))
        # a random history of swaps and tweak changes
        par = 1 - mode; last = tw
        for _ in range(rng.randint(0, 6)):
            if rng.random() < 0.5:
                s.add("mk swap %d" % m); par = 1 - par
            else:
                last = rbytes(rng, 8); s.add("mk settweak %d %s 8" % (m, hexs(last)))
        s.add("mk setkey %d %s 16 %d %d" % (m2, hexs(key), r, par))
        s.add("mk settweak %d %s 8" % (m2, hexs(last)))
        i1 = s.add("mk img %d" % m); i2 = s.add("mk img %d" % m2); meta.append(("same", i1, i2))
        # swap twice restores
        i0 = s.add("mk img %d" % m); s.add("mk swap %d" % m); s.add("mk swap %d" % m)
        i1 = s.add("mk img %d" % m); meta.append(("same", i0, i1))
        # parallel object: crypt, swap, crypt restores
        nb = rng.choice([0, 1, 3, 7, 8, 9, 16, 17, 20])
        data = rbytes(rng, nb * 8); tws = rbytes(rng, nb * 8)
        a = s.add("mp crypt %d %s %s %d" % (p, hexs(data), hexs(tws), nb * 8))
        s.add("mp swap %d" % p)
        r_ = s.add("mp crypt %d @%d %s %d" % (p, a, hexs(tws), nb * 8)); meta.append((r_, hexs(data)))
    s.add("mp cleanup %d" % p)
    scripts.append(("mantis swaps", s.text(), meta))
    return scripts

# ---------------------------------------------------------------- C04
def gen_c04(rng, tier):
    scripts = []
    n = 12 if tier == "quick" else 120
    for w in ("128", "64"):
        bs = BS[w]
        s = S(); meta = []
        t = s.new("t" + w, 0xa5); t2 = s.new("t" + w, 0)
        c = s.new("c" + w, 0); c2 = s.new("c" + w, 0)
        for be in ("def", "v128", "v256"):
            s.add("cfg backend " + be)
            s.add("c%s init %d" % (w, c)); s.add("c%s init %d" % (w, c2))
            for _ in range(n):
                ksz = rng.choice([bs, 2 * bs])
                key = rbytes(rng, ksz)
                s.add("t%s settk %d %s %d" % (w, t, hexs(key), ksz))
                s.add("t%s img %d" % (w, t))
                blk = rbytes(rng, bs)
                s.add("t%s enc %d %s" % (w, t, hexs(blk)))          # fresh schedule: zero tweak
                s.add("c%s settk %d %s %d" % (w, c, hexs(key), ksz))
                last = None
                for _ in range(rng.randint(1, 8 if tier == "quick" else 40)):
                    r = rng.random()
                    if r < 0.12:
                        tl = rng.choice([0, bs + 1, bs + 7, 2**31, 2**32 - 1]); tw = rbytes(rng, min(tl, 4))
                        s.add("t%s settweak %d %s %d" % (w, t, hexs(tw), tl))
                        s.add("c%s settweak %d %s %d" % (w, c, hexs(tw), tl))
                        continue
                    if r < 0.24:
                        tl = rng.randint(1, bs)
                        s.add("t%s settweak %d - %d" % (w, t, tl))
                        s.add("c%s settweak %d - %d" % (w, c, tl)); last = (None, tl)
                    else:
                        tl = rng.randint(1, bs); tw = rbytes(rng, tl)
                        if last is not None and last[0] is not None and rng.random() < 0.45:
                            # related to the tweak in force: a prefix of it, the same again, same head + new tail, ...
                            prev = last[0] + bytes(bs - last[1])
                            k_ = rng.randint(1, bs)
                            tw = rng.choice([prev[:k_], prev, prev[:k_] + rbytes(rng, bs - k_), prev[:last[1]], bytes(k_)])
                            tl = len(tw)
                        s.add("t%s settweak %d %s %d" % (w, t, hexs(tw), tl))
                        s.add("c%s settweak %d %s %d" % (w, c, hexs(tw), tl)); last = (tw, tl)
                        if rng.random() < 0.5:
                            # the CTR tweak API in the middle of a stream: the new tweak must govern all later output
                            n1 = rng.randint(1, 9 * bs)
                            s.add("c%s crypt %d %s %d" % (w, c, hexs(bytes(n1)), n1))
                    if rng.random() < 0.4:
                        s.add("t%s img %d" % (w, t))
                        s.add("t%s enc %d %s" % (w, t, hexs(rbytes(rng, bs))))
                i1 = s.add("t%s img %d" % (w, t))
                e1 = s.add("t%s enc %d %s" % (w, t, hexs(blk)))
                d1 = s.add("t%s dec %d %s" % (w, t, hexs(blk)))
                # history independence: a fresh schedule with only the last tweak
                s.add("t%s settk %d %s %d" % (w, t2, hexs(key), ksz))
                s.add("c%s settk %d %s %d" % (w, c2, hexs(key), ksz))
                if last is not None:
                    tw, tl = last
                    s.add("t%s settweak %d %s %d" % (w, t2, "-" if tw is None else hexs(tw), tl))
                    s.add("c%s settweak %d %s %d" % (w, c2, "-" if tw is None else hexs(tw), tl))
                    # a short tweak = the same bytes followed by zeros; NULL = zeros
                    full = (bytes(bs) if tw is None else tw + bytes(bs - tl))
                    s.add("t%s settweak %d %s %d" % (w, t2, hexs(full), bs))
                i2 = s.add("t%s img %d" % (w, t2)); meta.append(("same", i1, i2))
                e2 = s.add("t%s enc %d %s" % (w, t2, hexs(blk))); meta.append(("same", e1, e2))
                d2 = s.add("t%s dec %d %s" % (w, t2, hexs(blk))); meta.append(("same", d1, d2))
                # through the CTR tweak API: same keystream
                cn = rng.randint(0, bs); cb = rbytes(rng, cn)
                data = bytes(rng.choice([bs, 3 * bs, 5 * bs + 3, 9 * bs + 1]))
                s.add("c%s setctr %d %s %d" % (w, c, hexs(cb), cn))
                s.add("c%s setctr %d %s %d" % (w, c2, hexs(cb), cn))
                x1 = s.add("c%s crypt %d %s %d" % (w, c, hexs(data), len(data)))
                x2 = s.add("c%s crypt %d %s %d" % (w, c2, hexs(data), len(data))); meta.append(("same", x1, x2))
            s.add("c%s cleanup %d" % (w, c)); s.add("c%s cleanup %d" % (w, c2))
        scripts.append(("tweak histories skinny%s" % w, s.text(), meta))
    return scripts

# ---------------------------------------------------------------- C05 / C06
CTRK = {"c128": ("128", 16), "c64": ("64", 8), "mc": (None, 8)}
BATCH = {("c128", "def"): 1, ("c128", "v128"): 4, ("c128", "v256"): 8,
         ("c64", "def"): 1, ("c64", "v128"): 8, ("c64", "v256"): 8,
         ("mc", "def"): 1, ("mc", "v128"): 8, ("mc", "v256"): 8}

def carry_counters(rng, bs):
    """counters whose low k bytes are 0xff (carry through every byte, wrap-around), short, NULL"""
    out = []
    for k in range(bs + 1):
        c = bytearray(rbytes(rng, bs))
        for i in range(k):
            c[bs - 1 - i] = 0xff
        if k < bs and c[bs - 1 - k] == 0xff:
            c[bs - 1 - k] = 0x7f
        out.append((bytes(c), bs))
        if k >= 1:
            c2 = bytes(c[bs - k:]); out.append((c2[:-1] + bytes([0xfe - rng.randrange(0, 9)]), k))
    out.append((b"", 0)); out.append((None, bs)); out.append((None, 0))
    for n in range(bs + 1):
        out.append((rbytes(rng, n), n))
    return out

def cut_list(rng, total, bsz, Bsz, style=None):
    """ways of cutting `total` bytes into calls, aimed at the loop's case splits"""
    if style is None: style = rng.randrange(9)
    cuts = []
    left = total
    if style == 0:
        return [total]
    while left > 0:
        if style == 1: n = 1
        elif style == 2: n = rng.choice([0, 1, bsz - 1, bsz, bsz + 1])
        elif style == 3: n = rng.choice([Bsz - 1, Bsz, Bsz + 1, 2 * Bsz, 0])
        elif style == 4: n = rng.randint(0, 3 * Bsz)
        elif style == 5: n = rng.choice([0, 0, 1, 2, 3, rng.randint(1, bsz)])
        elif style == 7:      # a short call (keystream left in the buffer) followed by one of at least a whole batch
            n = rng.randint(1, max(1, Bsz - 1)) if len(cuts) % 2 == 0 else rng.choice([Bsz, Bsz + 1, 2 * Bsz - 1, 2 * Bsz, rng.randint(Bsz, 3 * Bsz)])
        elif style == 8:      # every buffer state against every request class
            n = rng.choice([1, bsz - 1, bsz, bsz + 1, Bsz - bsz, Bsz - 1, Bsz, Bsz + 1, Bsz + bsz, 2 * Bsz + 3])
        else: n = rng.randint(1, max(1, left))
        n = max(0, min(n, left))
        cuts.append(n); left -= n
        if len(cuts) > 400:
            cuts.append(left); break
    if rng.random() < 0.3:
        cuts.append(0)
    return cuts

def ctr_setkey_lines(rng, kind, obj, tweaked_ok=True):
    """key (and tweak) in place; returns the lines"""
    w, bs = CTRK[kind]
    L = []
    if kind == "mc":
        L.append("mc setkey %d %s 16 %d" % (obj, hexs(rbytes(rng, 16)), rng.randint(5, 8)))
        if rng.random() < 0.6:
            L.append("mc settweak %d %s 8" % (obj, hexs(rbytes(rng, 8))))
    elif tweaked_ok and rng.random() < 0.4:
        ksz = rng.choice([bs, 2 * bs])
        L.append("%s settk %d %s %d" % (kind, obj, hexs(rbytes(rng, ksz)), ksz))
        if rng.random() < 0.7:
            tl = rng.randint(1, bs)
            L.append("%s settweak %d %s %d" % (kind, obj, hexs(rbytes(rng, tl)), tl))
    else:
        ksz = rng.choice([bs, 2 * bs, 3 * bs])
        L.append("%s setkey %d %s %d" % (kind, obj, hexs(rbytes(rng, ksz)), ksz))
    return L

def gen_c05_one(rng, kind, be, tier, with_rekey=False, with_invalid=False):
    """one CTR object on a pinned back end: streams from init / set_counter, cut in many ways.
    meta: list of ('stream', [lines of the calls], reference line) — the concatenated output of
    the calls must equal the output of one big call on a twin object."""
    w, bs = CTRK[kind]
    B = BATCH[(kind, be)]
    s = S(); meta = []
    s.add("cfg backend " + be)
    a = s.new(kind); b = s.new(kind)
    s.add("%s init %d" % (kind, a)); s.add("%s init %d" % (kind, b))
    s.add("%s which %d" % (kind, a))
    n = 10 if tier == "quick" else 60
    ctrs = carry_counters(rng, bs)
    rng.shuffle(ctrs)
    # every object sees a NULL counter with a non-zero size, a NULL counter with the full size and a short counter
    # (ctrs[0] is unused: the first stream starts from the post-init counter)
    ctrs = [ctrs[0], (None, rng.randint(1, bs - 1)), (None, bs), (rbytes(rng, rng.randint(1, bs - 1)), None)] + ctrs
    ctrs[3] = (ctrs[3][0], len(ctrs[3][0]))
    first = True
    for it in range(n):
        keyl = ctr_setkey_lines(rng, kind, a) if (it == 0 or rng.random() < 0.5) else []
        for l in keyl:
            s.add(l); s.add(l.replace(" %d " % a, " %d " % b, 1))
        if first:
            first = False              # the very first stream starts from the post-init counter (zero)
        else:
            c, cn = ctrs[it % len(ctrs)]
            l = "%s setctr %d %s %d" % (kind, a, "-" if c is None else hexs(c), cn)
            s.add(l); s.add(l.replace(" %d " % a, " %d " % b, 1))
        total = rng.choice([0, 1, bs - 1, bs, bs + 1, B * bs - 1, B * bs, B * bs + 1, 2 * B * bs + 3,
                            rng.randint(0, 4 * B * bs + 5), rng.randint(0, 700 if tier == "quick" else 5000)])
        forced = {1: 7, 2: 8}.get(it)              # two streams of every object exercise the short/long mixes
        if forced is not None: total = 6 * B * bs + rng.randint(0, 2 * B * bs)
        data = rbytes(rng, total) if rng.random() < 0.7 else bytes(total)
        ref = s.add("%s crypt %d %s %d" % (kind, b, hexs(data), total))
        calls = []; pos = 0
        for c_ in cut_list(rng, total, bs, B * bs, forced):
            opt = rng.choice(["", "", " inplace", " ai=%d ao=%d" % (rng.randrange(32), rng.randrange(32))])
            calls.append(s.add("%s crypt %d %s %d%s" % (kind, a, hexs(data[pos:pos + c_]), c_, opt)))
            pos += c_
            if with_invalid and rng.random() < 0.3:
                # rejected calls in the middle of a stream (buffered key stream present): nothing may change
                bad = ["%s crypt %d - 5" % (kind, a), "%s crypt %d 0011 2 outnull" % (kind, a),
                       "%s setctr %d 00 %d" % (kind, a, bs + 1), "%s crypt - 00 1" % kind]
                if kind == "mc":
                    bad += ["mc setkey %d - 16 5" % a, "mc setkey %d %s 16 9" % (a, hexs(rbytes(rng, 16))),
                            "mc setkey %d %s 16 4" % (a, hexs(rbytes(rng, 16))), "mc setkey %d %s 15 6" % (a, hexs(rbytes(rng, 15))),
                            "mc settweak %d %s 7" % (a, hexs(rbytes(rng, 7))), "mc settweak %d %s 9" % (a, hexs(rbytes(rng, 9)))]
                else:
                    bad += ["%s setkey %d - %d" % (kind, a, bs), "%s setkey %d %s %d" % (kind, a, hexs(rbytes(rng, bs - 1)), bs - 1),
                            "%s setkey %d %s %d" % (kind, a, hexs(rbytes(rng, 3 * bs + 1)), 3 * bs + 1),
                            "%s settk %d %s %d" % (kind, a, hexs(rbytes(rng, 2 * bs + 1)), 2 * bs + 1),
                            "%s settk %d - %d" % (kind, a, bs), "%s settweak %d %s %d" % (kind, a, hexs(rbytes(rng, bs + 1)), bs + 1),
                            "%s settweak %d 00 0" % (kind, a)]
                s.add(rng.choice(bad))
        meta.append(("stream", calls, ref))
        if with_rekey and rng.random() < 0.6:
            # key or tweak change in the middle of the stream, no counter set: see C06 / known finding
            for l in ctr_setkey_lines(rng, kind, a):
                s.add(l); s.add(l.replace(" %d " % a, " %d " % b, 1))
            m = rng.randint(1, 3 * B * bs)
            d2 = rbytes(rng, m)
            x = s.add("%s crypt %d %s %d" % (kind, a, hexs(d2), m))
            meta.append(("rekey", x, total))
            s.add("%s crypt %d %s %d" % (kind, b, hexs(d2), m))
    s.add("%s cleanup %d" % (kind, a)); s.add("%s cleanup %d" % (kind, b))
    return ("%s on %s" % (kind, be), s.text(), meta)

def backends_for(kind, has128=True, has256=True):
    l = ["def"]
    if has128: l.append("v128")
    if has256 and kind == "c128": l.append("v256")
    return l

def gen_c05(rng, tier):
    out = []
    for kind in ("c128", "c64", "mc"):
        for be in backends_for(kind):
            for rep in range(1 if tier == "quick" else 4):
                out.append(gen_c05_one(rng, kind, be, tier))
    return out

def gen_c06(rng, tier):
    """back-end neutral scripts (no cfg line): the caller prefixes `cfg backend X` and compares the
    outputs of all back ends with each other"""
    out = []
    for kind in ("c128", "c64", "mc"):
        for rep in range(2 if tier == "quick" else 8):
            t, sc, meta = gen_c05_one(rng, kind, "def", tier, with_rekey=(rep % 2 == 1), with_invalid=True)
            body = "\n".join(sc.splitlines()[1:]) + "\n"           # drop the cfg line; the caller puts its own back
            out.append(("%s history %d%s" % (kind, rep, " (with mid-stream rekey)" if rep % 2 else ""), body,
                        [m for m in meta if m[0] == "rekey"]))
    for pk in ("p128", "p64", "mp"):
        for rep in range(1 if tier == "quick" else 4):
            t, sc, meta = gen_c07_one(rng, pk, tier, with_invalid=True)
            out.append(("%s history %d" % (pk, rep), sc, []))     # the caller prefixes one cfg line
    return out

# ---------------------------------------------------------------- C07
def gen_c07_one(rng, pk, tier, with_invalid=False):
    """parallel ECB against the single-block functions, block count 0..3B+1 and larger.
    meta: ('blocks', parallel line, [single-block lines])"""
    s = S(); meta = []
    if pk == "mp":
        bs = 8; p = s.new("mp"); k = s.new("mk")
        s.add("mp init %d" % p); s.add("mp psize %d" % p); s.add("mp which %d" % p)
        counts = list(range(0, 27)) + [rng.randint(27, 80) for _ in range(2 if tier == "quick" else 10)]
        rng.shuffle(counts)
        for nb in counts[: (14 if tier == "quick" else 10**6)]:
            key = rbytes(rng, 16); r = rng.randint(5, 8); mode = rng.randint(0, 1)
            s.add("mp setkey %d %s 16 %d %d" % (p, hexs(key), r, mode))
            s.add("mk setkey %d %s 16 %d %d" % (k, hexs(key), r, mode))
            data = rbytes(rng, nb * bs); tws = rbytes(rng, nb * bs)
            opt = rng.choice(["", " inplace", " ai=%d ao=%d" % (rng.randrange(32), rng.randrange(32))])
            pl = s.add("mp crypt %d %s %s %d%s" % (p, hexs(data), hexs(tws), nb * bs, opt))
            singles = [s.add("mk cryptt %d %s %s" % (k, hexs(data[i*bs:(i+1)*bs]), hexs(tws[i*bs:(i+1)*bs])))
                       for i in range(nb)]
            meta.append(("blocks", pl, singles))
            if with_invalid and rng.random() < 0.3:
                bad = nb * bs + rng.randint(1, bs - 1)
                s.add("mp crypt %d %s %s %d" % (p, hexs(bytes((bad // bs + 1) * bs)), hexs(bytes((bad // bs + 1) * bs)), bad))
                s.add("mp setkey %d %s 15 %d 1" % (p, hexs(bytes(15)), r))
        s.add("mp cleanup %d" % p)
        return ("mp", s.text(), meta)
    w = pk[1:]; bs = BS[w]
    p = s.new(pk); k = s.new("k" + w)
    s.add("%s init %d" % (pk, p)); s.add("%s psize %d" % (pk, p)); s.add("%s which %d" % (pk, p))
    counts = list(range(0, 27)) + [rng.randint(27, 80) for _ in range(2 if tier == "quick" else 10)]
    rng.shuffle(counts)
    for nb in counts[: (14 if tier == "quick" else 10**6)]:
        ksz = rng.choice([bs, 2 * bs, 3 * bs, rng.randint(bs, 3 * bs)])
        key = rbytes(rng, ksz)
        s.add("%s setkey %d %s %d" % (pk, p, hexs(key), ksz))
        s.add("k%s setkey %d %s %d" % (w, k, hexs(key), ksz))
        data = rbytes(rng, nb * bs)
        for d in ("enc", "dec"):
            opt = rng.choice(["", " inplace", " ai=%d ao=%d" % (rng.randrange(32), rng.randrange(32))])
            pl = s.add("%s %s %d %s %d%s" % (pk, d, p, hexs(data), nb * bs, opt))
            singles = [s.add("k%s %s %d %s" % (w, d, k, hexs(data[i*bs:(i+1)*bs]))) for i in range(nb)]
            meta.append(("blocks", pl, singles))
        if with_invalid and rng.random() < 0.3:
            bad = nb * bs + rng.randint(1, bs - 1)
            s.add("%s enc %d %s %d" % (pk, p, hexs(bytes((bad // bs + 1) * bs)), bad))
            s.add("%s setkey %d %s %d" % (pk, p, hexs(bytes(bs - 1)), bs - 1))
    s.add("%s cleanup %d" % (pk, p))
    return (pk, s.text(), meta)

def gen_c07(rng, tier):
    out = []
    for pk in ("p128", "p64", "mp"):
        for be in (["def", "v128", "v256"] if pk == "p128" else ["def", "v128"]):
            for rep in range(1 if tier == "quick" else 3):
                t, sc, meta = gen_c07_one(rng, pk, tier)
                out.append(("%s on %s" % (pk, be), "cfg backend %s\n" % be + sc,
                            [(m[0], m[1] + 1, [x + 1 for x in m[2]]) for m in meta]))
    return out

# ---------------------------------------------------------------- C09
def gen_c09(rng, tier):
    """every pointer argument at every alignment, exact-size buffers, overlap offsets, in place,
    all lengths; run on an ASan+UBSan build and a plain build"""
    out = []
    for w in ("128", "64"):
        bs = BS[w]
        s = S()
        k = s.new("k" + w); t = s.new("t" + w)
        s.add("k%s setkey %d %s %d" % (w, k, hexs(rbytes(rng, 2 * bs)), 2 * bs))
        s.add("t%s settk %d %s %d" % (w, t, hexs(rbytes(rng, bs)), bs))
        blk = rbytes(rng, bs)
        for a in range(32):
            s.add("k%s enc %d %s ai=%d ao=%d" % (w, k, hexs(blk), a, (a * 7 + 3) % 32))
            s.add("k%s dec %d %s ai=%d ao=%d" % (w, k, hexs(blk), (a * 5 + 1) % 32, a))
        for d in range(-(bs - 1), bs):
            s.add("k%s enc %d %s ovl=%d ai=%d" % (w, k, hexs(blk), d, rng.randrange(32)))
            s.add("k%s dec %d %s ovl=%d ai=%d" % (w, k, hexs(blk), d, rng.randrange(32)))
            s.add("t%s enc %d %s ovl=%d" % (w, t, hexs(blk), d))
        for n in range(0, 3 * bs + 2):          # every key length, exact-size buffers
            s.add("k%s setkey %d %s %d" % (w, k, hexs(rbytes(rng, n)), n))
            s.add("t%s settk %d %s %d" % (w, t, hexs(rbytes(rng, n)), n))
            if n <= bs + 1:
                s.add("t%s settweak %d %s %d" % (w, t, hexs(rbytes(rng, n)), n))
        out.append(("skinny%s single block placement" % w, s.text()))
    s = S()
    m = s.new("mk")
    s.add("mk setkey %d %s 16 7 1" % (m, hexs(rbytes(rng, 16))))
    blk = rbytes(rng, 8); tw = rbytes(rng, 8)
    for a in range(32):
        s.add("mk crypt %d %s ai=%d ao=%d" % (m, hexs(blk), a, (a * 11 + 5) % 32))
        s.add("mk cryptt %d %s %s ai=%d ao=%d" % (m, hexs(blk), hexs(tw), (a * 3 + 2) % 32, a))
    for d in range(-7, 8):
        s.add("mk crypt %d %s ovl=%d" % (m, hexs(blk), d))
        s.add("mk cryptt %d %s %s ovl=%d" % (m, hexs(blk), hexs(tw), d))
    out.append(("mantis single block placement", s.text()))
    for kind in ("c128", "c64", "mc"):
        w, bs = CTRK[kind]
        for be in backends_for(kind):
            B = BATCH[(kind, be)]
            s = S()
            s.add("cfg backend " + be)
            c = s.new(kind); s.add("%s init %d" % (kind, c))
            for l in ctr_setkey_lines(rng, kind, c): s.add(l)
            for n in range(0, bs + 1):
                s.add("%s setctr %d %s %d" % (kind, c, hexs(rbytes(rng, n)), n))
            lens = list(range(0, 3 * B * bs + 2)) if tier != "quick" else \
                sorted(set(list(range(0, 2 * bs + 2)) + [B * bs - 1, B * bs, B * bs + 1, 2 * B * bs - 1, 2 * B * bs,
                                                          2 * B * bs + 1, 3 * B * bs, 3 * B * bs + 1]))
            for n in lens:
                d = rbytes(rng, n)
                s.add("%s crypt %d %s %d ai=%d ao=%d" % (kind, c, hexs(d), n, rng.randrange(32), rng.randrange(32)))
                s.add("%s crypt %d %s %d inplace ai=%d" % (kind, c, hexs(d), n, rng.randrange(32)))
            s.add("%s cleanup %d" % (kind, c))
            out.append(("%s on %s buffer extents" % (kind, be), s.text()))
    for pk in ("p128", "p64", "mp"):
        for be in (["def", "v128", "v256"] if pk == "p128" else ["def", "v128"]):
            bs = 16 if pk == "p128" else 8
            s = S()
            s.add("cfg backend " + be)
            p = s.new(pk); s.add("%s init %d" % (pk, p))
            if pk == "mp":
                s.add("mp setkey %d %s 16 6 1" % (p, hexs(rbytes(rng, 16))))
            else:
                s.add("%s setkey %d %s %d" % (pk, p, hexs(rbytes(rng, bs + 3)), bs + 3))
            for nb in range(0, 26 if tier == "quick" else 50):
                d = rbytes(rng, nb * bs)
                for opt in ("ai=%d ao=%d" % (rng.randrange(32), rng.randrange(32)), "inplace ai=%d" % rng.randrange(32)):
                    if pk == "mp":
                        s.add("mp crypt %d %s %s %d %s" % (p, hexs(d), hexs(rbytes(rng, nb * bs)), nb * bs, opt))
                    else:
                        s.add("%s enc %d %s %d %s" % (pk, p, hexs(d), nb * bs, opt))
                        s.add("%s dec %d %s %d %s" % (pk, p, hexs(d), nb * bs, opt))
            s.add("%s cleanup %d" % (pk, p))
            out.append(("%s on %s buffer extents" % (pk, be), s.text()))
    return out

# ---------------------------------------------------------------- C10
def gen_c10(rng, tier):
    """every key length 0..3bs+16 and huge ones, every key-setting entry point; the padded twin must
    give the same image.  meta: ('same', line, line)"""
    out = []
    huge = [2**31 - 1, 2**31, 2**32 - 16, 2**32 - 1]
    for w in ("128", "64"):
        bs = BS[w]
        s = S(); meta = []
        k = s.new("k" + w, 0x33); k2 = s.new("k" + w, 0x33)
        t = s.new("t" + w, 0x33); t2 = s.new("t" + w, 0x33)
        c = s.new("c" + w); c2 = s.new("c" + w); p = s.new("p" + w); p2 = s.new("p" + w)
        for o in (c, c2): s.add("c%s init %d" % (w, o))
        for o in (p, p2): s.add("p%s init %d" % (w, o))
        blk = rbytes(rng, bs)
        keyed = False
        for n in list(range(0, 3 * bs + 17)) + huge:
            for rep in range(1 if tier == "quick" else 3):
                key = rbytes(rng, min(n, 3 * bs + 16))
                if rep == 0 and n <= 3 * bs + 16:
                    key = bytes([0xff]) * n            # high bits set in every word
                pn = ((n + bs - 1) // bs) * bs
                pad = key + bytes(max(0, pn - len(key))) if n <= 3 * bs else b""
                inr = bs <= n <= 3 * bs
                # plain key schedule
                s.add("k%s setkey %d %s %d" % (w, k, hexs(key), n))
                keyed = keyed or inr
                i1 = s.add("k%s img %d" % (w, k))
                e1 = s.add("k%s enc %d %s" % (w, k, hexs(blk))) if keyed else i1
                if inr:
                    s.add("k%s setkey %d %s %d" % (w, k2, hexs(pad), pn))
                    i2 = s.add("k%s img %d" % (w, k2)); e2 = s.add("k%s enc %d %s" % (w, k2, hexs(blk)))
                    meta += [("same", i1, i2), ("same", e1, e2)]
                # tweaked key schedule
                s.add("t%s settk %d %s %d" % (w, t, hexs(key), n))
                i1 = s.add("t%s img %d" % (w, t))
                if bs <= n <= 2 * bs:
                    s.add("t%s settk %d %s %d" % (w, t2, hexs(pad), pn))
                    i2 = s.add("t%s img %d" % (w, t2)); meta.append(("same", i1, i2))
                # CTR and parallel setters
                s.add("c%s setkey %d %s %d" % (w, c, hexs(key), n))
                s.add("c%s setctr %d - 0" % (w, c))
                x1 = s.add("c%s crypt %d %s %d" % (w, c, hexs(bytes(2 * bs + 1)), 2 * bs + 1))
                s.add("p%s setkey %d %s %d" % (w, p, hexs(key), n))
                y1 = s.add("p%s enc %d %s %d" % (w, p, hexs(blk * 9), 9 * bs))
                if inr:
                    s.add("c%s setkey %d %s %d" % (w, c2, hexs(pad), pn))
                    s.add("c%s setctr %d - 0" % (w, c2))
                    x2 = s.add("c%s crypt %d %s %d" % (w, c2, hexs(bytes(2 * bs + 1)), 2 * bs + 1))
                    s.add("p%s setkey %d %s %d" % (w, p2, hexs(pad), pn))
                    y2 = s.add("p%s enc %d %s %d" % (w, p2, hexs(blk * 9), 9 * bs))
                    meta += [("same", x1, x2), ("same", y1, y2)]
                if bs <= n <= 2 * bs:
                    s.add("c%s settk %d %s %d" % (w, c, hexs(key), n)); s.add("c%s setctr %d - 0" % (w, c))
                    x1 = s.add("c%s crypt %d %s %d" % (w, c, hexs(bytes(bs + 1)), bs + 1))
                    s.add("c%s settk %d %s %d" % (w, c2, hexs(pad), pn)); s.add("c%s setctr %d - 0" % (w, c2))
                    x2 = s.add("c%s crypt %d %s %d" % (w, c2, hexs(bytes(bs + 1)), bs + 1))
                    meta.append(("same", x1, x2))
                else:
                    s.add("c%s settk %d %s %d" % (w, c, hexs(key), n))
        for o in (c, c2): s.add("c%s cleanup %d" % (w, o))
        for o in (p, p2): s.add("p%s cleanup %d" % (w, o))
        out.append(("skinny%s key lengths" % w, s.text(), meta))
    # MANTIS: only 16-byte keys and 5..8 rounds
    s = S(); meta = []
    m = s.new("mk", 0x44); c = s.new("mc"); p = s.new("mp")
    s.add("mc init %d" % c); s.add("mp init %d" % p)
    for n in list(range(0, 40)) + huge:
        for r in (0, 1, 4, 5, 6, 7, 8, 9, 12, 2**31, 2**32 - 1) if n == 16 else (rng.choice([4, 5, 8, 9]),):
            key = rbytes(rng, min(n, 40))
            s.add("mk setkey %d %s %d %d %d" % (m, hexs(key), n, r, rng.randint(0, 1)))
            s.add("mk img %d" % m)
            s.add("mc setkey %d %s %d %d" % (c, hexs(key), n, r))
            s.add("mc crypt %d %s 9" % (c, hexs(bytes(9))))
            s.add("mp setkey %d %s %d %d 1" % (p, hexs(key), n, r))
            s.add("mp crypt %d %s %s 24" % (p, hexs(bytes(24)), hexs(bytes(24))))
    s.add("mc cleanup %d" % c); s.add("mp cleanup %d" % p)
    out.append(("mantis key lengths and rounds", s.text(), meta))
    return out

# ---------------------------------------------------------------- C13
def gen_c13(rng, tier):
    """simulated CPUs at every boundary of the selection logic, and the real CPU with many
    ambient ECX values"""
    s = S()
    AVX2, SSE2, OSX, AVX = 1 << 5, 1 << 26, 1 << 27, 1 << 28
    cpus = []
    for maxleaf in (0, 1, 6, 7, 0xd, 0x20):
        for l1ecx in (0, OSX, AVX, OSX | AVX, 0x7ffafbff, 0x7ffafbff & ~OSX, 0x7ffafbff & ~AVX):
            for l1edx in (0, SSE2, 0xbfebfbff, 0xbfebfbff & ~SSE2):
                for l7 in ((0, 0), (AVX2, 0), (0, AVX2), (AVX2, AVX2), (0xffffffff & ~AVX2, AVX2)):
                    for xcr0 in (0, 1, 2, 3, 4, 6, 7, 0xe7):
                        cpus.append((maxleaf, l1ecx, l1edx, l7[0], l7[1], xcr0, rng.choice([0, AVX2, 0xffffffff])))
    if tier == "quick":
        cpus = rng.sample(cpus, 260)
    k1 = s.new("c128"); k2 = s.new("c64"); k3 = s.new("mc"); p1 = s.new("p128"); p2 = s.new("p64"); p3 = s.new("mp")
    objs = (("c128", k1), ("c64", k2), ("mc", k3), ("p128", p1), ("p64", p2), ("mp", p3))
    for cpu in cpus:
        s.add("cfg cpu %x %x %x %x %x %x %x" % cpu)
        for amb in (0, 1, rng.getrandbits(32)):
            s.add("cfg ambient %x" % amb)
            s.add("probe")
        kd, o = objs[rng.randrange(6)]
        s.add("cfg ambient %x" % rng.getrandbits(32))
        s.add("%s init %d" % (kd, o)); s.add("%s which %d" % (kd, o))
        if kd[0] in "pm" and kd != "mc":
            s.add("%s psize %d" % (kd, o))
        s.add("%s cleanup %d" % (kd, o))
    # the real CPU, arbitrary register contents before the probes, many inits from different call sites
    s.add("cfg cpu real")
    for be in ("v256", "v128", "def"):
        s.add("cfg backend " + be)
        for amb in [0, 1, 2, 3, 7, 0x7ffafbff, 0xffffffff] + [rng.getrandbits(32) for _ in range(6)]:
            s.add("cfg ambient %x" % amb)
            s.add("probe")
            for kd, o in objs:
                s.add("%s init %d" % (kd, o)); s.add("%s which %d" % (kd, o))
                if kd in ("p128", "p64", "mp"):
                    s.add("%s psize %d" % (kd, o))
                s.add("%s cleanup %d" % (kd, o))
    return [("cpu descriptions and ambient registers", s.text())]

# ---------------------------------------------------------------- C14 / C15 / C16 / C17
ALLK = ["k128", "t128", "c128", "p128", "k64", "t64", "c64", "p64", "mk", "mc", "mp"]
def kbs(kind):
    return 16 if kind.endswith("128") else 8

def invalid_ops(rng, kind, o):
    """invalid calls of every class for an object of this kind (o may be '-'); all return int"""
    bs = kbs(kind)
    big = rng.choice([2**31, 2**32 - 1, 3 * bs + 1, 3 * bs + 16, 1000])
    small = rng.choice([0, 1, bs - 1])
    L = []
    if kind in ("k128", "k64"):
        L += ["%s setkey %s - %d" % (kind, o, bs), "%s setkey %s %s %d" % (kind, o, hexs(bytes(small)), small),
              "%s setkey %s 00 %d" % (kind, o, big), "%s setkey - %s %d" % (kind, hexs(bytes(bs)), bs)]
    elif kind in ("t128", "t64"):
        L += ["%s settk %s - %d" % (kind, o, bs), "%s settk %s %s %d" % (kind, o, hexs(bytes(small)), small),
              "%s settk %s 00 %d" % (kind, o, rng.choice([2 * bs + 1, big])), "%s settk - %s %d" % (kind, hexs(bytes(bs)), bs),
              "%s settweak %s 00 0" % (kind, o), "%s settweak %s 00 %d" % (kind, o, rng.choice([bs + 1, big])),
              "%s settweak %s - 0" % (kind, o), "%s settweak %s - %d" % (kind, o, rng.choice([bs + 1, big])),
              "%s settk %s - %d" % (kind, o, rng.choice([0, big])),
              "%s settweak - 00 1" % kind]
    elif kind in ("c128", "c64"):
        L += ["%s setkey %s - %d" % (kind, o, bs), "%s setkey %s %s %d" % (kind, o, hexs(bytes(small)), small),
              "%s setkey %s 00 %d" % (kind, o, big), "%s settk %s - %d" % (kind, o, bs),
              "%s settk %s 00 %d" % (kind, o, rng.choice([2 * bs + 1, big])),
              "%s settweak %s 00 0" % (kind, o), "%s settweak %s 00 %d" % (kind, o, rng.choice([bs + 1, big])),
              "%s settweak %s - 0" % (kind, o), "%s settweak %s - %d" % (kind, o, rng.choice([bs + 1, big])),
              "%s setctr %s - %d" % (kind, o, rng.choice([bs + 1, big])), "%s setkey %s - %d" % (kind, o, rng.choice([0, big])),
              "%s setctr %s 00 %d" % (kind, o, rng.choice([bs + 1, big])),
              "%s crypt %s - 7" % (kind, o), "%s crypt %s 0102 2 outnull" % (kind, o), "%s crypt %s - 0 outnull" % (kind, o),
              "%s crypt - 00 1" % kind, "%s setkey - %s %d" % (kind, hexs(bytes(bs)), bs), "%s setctr - 00 1" % kind,
              "%s settweak - 00 1" % kind, "%s settk - %s %d" % (kind, hexs(bytes(bs)), bs), "%s init -" % kind]
    elif kind in ("p128", "p64"):
        bad = rng.randint(1, 4 * bs); bad += 1 if bad % bs == 0 else 0
        L += ["%s setkey %s - %d" % (kind, o, bs), "%s setkey %s %s %d" % (kind, o, hexs(bytes(small)), small),
              "%s setkey %s 00 %d" % (kind, o, big),
              "%s enc %s %s %d" % (kind, o, hexs(bytes((bad // bs + 1) * bs)), bad),
              "%s dec %s %s %d" % (kind, o, hexs(bytes((bad // bs + 1) * bs)), bad),
              "%s enc - %s %d" % (kind, hexs(bytes(bs)), bs), "%s setkey - %s %d" % (kind, hexs(bytes(bs)), bs), "%s init -" % kind]
    elif kind == "mk":
        L += ["mk setkey %s - 16 6 1" % o, "mk setkey %s %s %d 6 1" % (o, hexs(bytes(15)), 15), "mk setkey %s %s 17 6 1" % (o, hexs(bytes(17))),
              "mk setkey %s %s 16 %d %d" % (o, hexs(bytes(16)), rng.choice([0, 4, 9, 2**32 - 1]), rng.randint(0, 1)),
              "mk settweak %s %s %d" % (o, hexs(bytes(8)), rng.choice([0, 7, 9, 16, 2**32 - 1])),
              "mk settweak %s - %d" % (o, rng.choice([0, 7, 9, 16])), "mk setkey %s - %d 6 1" % (o, rng.choice([0, 15, 17])),
              "mk setkey - %s 16 6 1" % hexs(bytes(16)), "mk settweak - %s 8" % hexs(bytes(8))]
    elif kind == "mc":
        L += ["mc setkey %s - 16 6" % o, "mc setkey %s %s 15 6" % (o, hexs(bytes(15))),
              "mc setkey %s %s 16 %d" % (o, hexs(bytes(16)), rng.choice([0, 4, 9])),
              "mc settweak %s %s %d" % (o, hexs(bytes(8)), rng.choice([0, 7, 9])), "mc settweak %s - %d" % (o, rng.choice([0, 7, 9])),
              "mc setctr %s - %d" % (o, rng.choice([9, big])),
              "mc setctr %s 00 %d" % (o, rng.choice([9, big])), "mc crypt %s - 3" % o, "mc crypt %s 01 1 outnull" % o,
              "mc crypt - 00 1", "mc init -", "mc setkey - %s 16 6" % hexs(bytes(16))]
    elif kind == "mp":
        bad = rng.randint(1, 60); bad += 1 if bad % 8 == 0 else 0
        L += ["mp setkey %s - 16 6 1" % o, "mp setkey %s %s 15 6 0" % (o, hexs(bytes(15))),
              "mp setkey %s %s 16 %d 1" % (o, hexs(bytes(16)), rng.choice([0, 4, 9])),
              "mp crypt %s %s %s %d" % (o, hexs(bytes((bad // 8 + 1) * 8)), hexs(bytes((bad // 8 + 1) * 8)), bad),
              "mp crypt - %s %s 8" % (hexs(bytes(8)), hexs(bytes(8))), "mp init -"]
    return L

def observe(rng, s, kind, o, keyed):
    """ops that reveal the state of the object (results later compared against the twin history)"""
    bs = kbs(kind)
    if kind in ("k128", "k64", "t128", "t64"):
        s.add("%s img %d" % (kind, o))
        if keyed:
            s.add("%s enc %d %s" % (kind, o, hexs(rbytes(rng, bs))))
    elif kind == "mk":
        s.add("mk img %d" % o)
        if keyed:
            s.add("mk crypt %d %s" % (o, hexs(rbytes(rng, 8))))
    elif kind in ("c128", "c64", "mc"):
        n = rng.randint(0, 5 * bs)
        s.add("%s which %d" % (kind, o))
        s.add("%s crypt %d %s %d" % (kind, o, hexs(rbytes(rng, n)), n))
        if rng.random() < 0.5:
            s.add("%s crypt %d . 0" % (kind, o))                     # zero-length call with valid pointers
    else:
        s.add("%s psize %d" % (kind, o)); s.add("%s which %d" % (kind, o))
        nb = rng.randint(0, 10)
        if kind == "mp":
            if rng.random() < 0.5: s.add("mp swap %d" % o)
            if rng.random() < 0.3: s.add("mp crypt %d . . 0" % o)
            s.add("mp crypt %d %s %s %d" % (o, hexs(rbytes(rng, nb * 8)), hexs(rbytes(rng, nb * 8)), nb * 8))
        else:
            if rng.random() < 0.3: s.add("%s enc %d . 0" % (kind, o))
            s.add("%s enc %d %s %d" % (kind, o, hexs(rbytes(rng, nb * bs)), nb * bs))

def valid_setup(rng, s, kind, o):
    bs = kbs(kind)
    if kind in ("k128", "k64"):
        n = rng.randint(bs, 3 * bs); s.add("%s setkey %d %s %d" % (kind, o, hexs(rbytes(rng, n)), n))
    elif kind in ("t128", "t64"):
        n = rng.randint(bs, 2 * bs); s.add("%s settk %d %s %d" % (kind, o, hexs(rbytes(rng, n)), n))
        if rng.random() < 0.6:
            n = rng.randint(1, bs); s.add("%s settweak %d %s %d" % (kind, o, hexs(rbytes(rng, n)), n))
    elif kind == "mk":
        s.add("mk setkey %d %s 16 %d %d" % (o, hexs(rbytes(rng, 16)), rng.randint(5, 8), rng.randint(0, 1)))
        if rng.random() < 0.5: s.add("mk settweak %d %s 8" % (o, hexs(rbytes(rng, 8))))
    elif kind in ("c128", "c64", "mc"):
        for l in ctr_setkey_lines(rng, kind, o): s.add(l)
        if rng.random() < 0.7:
            n = rng.randint(0, bs); s.add("%s setctr %d %s %d" % (kind, o, hexs(rbytes(rng, n)), n))
    elif kind == "mp":
        s.add("mp setkey %d %s 16 %d %d" % (o, hexs(rbytes(rng, 16)), rng.randint(5, 8), rng.randint(0, 1)))
    else:
        n = rng.randint(bs, 3 * bs); s.add("%s setkey %d %s %d" % (kind, o, hexs(rbytes(rng, n)), n))

def gen_c14(rng, tier):
    """valid histories with invalid calls injected anywhere.  The caller also runs the history with
    the invalid calls commented out: every other result line must be identical."""
    out = []
    reps = 6 if tier == "quick" else 40
    for rep in range(reps):
        s = S(); inv_lines = []
        s.add("cfg backend " + rng.choice(["def", "v128", "v256"]))
        objs = []
        for kind in ALLK:
            o = s.new(kind, 0)
            objs.append((kind, o, {"live": kind[0] not in "cp" and kind != "mc" and kind != "mp", "keyed": False}))
        # every heap-using kind first sees a FAILED initialisation on memory that is not zero (a stale ctx / vtable left behind
        # by the failure path shows in the calls that follow), then the history proper starts from a fresh zeroed object
        for kind, o, st in objs:
            if kind in ("c128", "c64", "mc", "p128", "p64", "mp"):
                s.add("new %s %d %02x" % (kind, o, [0xa5, 0xff, 0x01, 0x5a, 0x80, 0x7f][rep % 6]))
                s.add("cfg failalloc 1"); s.add("%s init %d" % (kind, o)); s.add("cfg failalloc 0")
                s0 = S(); valid_setup(rng, s0, kind, o); observe(rng, s0, kind, o, False)
                for l in s0.lines:
                    if " which " in l or " psize " in l or " swap " in l: s.add(l)
                    else: inv_lines.append(s.add(l))
                s.add("%s cleanup %d" % (kind, o))
                s.add("new %s %d 00" % (kind, o))
        for step in range(60 if tier == "quick" else 200):
            kind, o, st = objs[rng.randrange(len(objs))]
            r = rng.random()
            needs_init = kind in ("c128", "c64", "mc", "p128", "p64", "mp")
            if r < 0.35:
                for l in rng.sample(invalid_ops(rng, kind, str(o)), 2):
                    inv_lines.append(s.add(l))
                observe(rng, s, kind, o, st["keyed"])
            elif r < 0.45 and needs_init:
                if st["live"]:
                    s.add("%s cleanup %d" % (kind, o)); st["live"] = False; st["keyed"] = False
                elif rng.random() < 0.4:
                    # a failed initialisation, whatever the memory held before: the object must be inert
                    s.add("new %s %d %02x" % (kind, o, rng.choice([0x00, 0xa5, 0xff, 0x01])))
                    s.add("cfg failalloc 1"); s.add("%s init %d" % (kind, o)); s.add("cfg failalloc 0")
                    # ... and is used at once: every call on it is an invalid call (an init that leaves a stale ctx / vtable behind
                    # shows here, whatever the later random steps do)
                    s0 = S(); valid_setup(rng, s0, kind, o); observe(rng, s0, kind, o, False)
                    for l in s0.lines:
                        if " which " in l or " psize " in l or " swap " in l: s.add(l)      # no return value to compare
                        else: inv_lines.append(s.add(l))
                else:
                    s.add("%s init %d" % (kind, o)); st["live"] = True
            elif r < 0.5 and needs_init and not st["live"]:
                # every call on a zeroed / cleaned-up object is an invalid call
                s0 = S(); valid_setup(rng, s0, kind, o); observe(rng, s0, kind, o, False)
                for l in s0.lines:
                    if " which " in l or " psize " in l or " swap " in l:      # void / informational: no return value to compare
                        s.add(l)
                    else:
                        inv_lines.append(s.add(l))
            else:
                if needs_init and not st["live"]:
                    s.add("%s init %d" % (kind, o)); st["live"] = True
                valid_setup(rng, s, kind, o); st["keyed"] = True
                observe(rng, s, kind, o, True)
        for kind, o, st in objs:
            if kind in ("c128", "c64", "mc", "p128", "p64", "mp"):
                s.add("%s cleanup %d" % (kind, o))
        out.append(("history %d with %d invalid calls" % (rep, len(inv_lines)), s.text(), inv_lines))
    return out

def gen_c15(rng, tier, failalloc=False):
    """init / setup / processing / cleanup / repeated cleanup / use after cleanup / re-init over several
    objects of every kind and back end"""
    out = []
    reps = 6 if tier == "quick" else 40
    for rep in range(reps):
        s = S()
        objs = []
        for kind in ("c128", "c64", "mc", "p128", "p64", "mp"):
            for j in range(2):
                objs.append([kind, s.new(kind, 0), False])
        for step in range(70 if tier == "quick" else 300):
            if rng.random() < 0.15:
                s.add("cfg backend " + rng.choice(["def", "v128", "v256"]))
            o = objs[rng.randrange(len(objs))]
            kind, oid, live = o
            r = rng.random()
            if failalloc and rng.random() < 0.2:
                s.add("cfg failalloc %d" % rng.choice([1, 1, 2]))
            if r < 0.25:
                if not live:
                    if failalloc and rng.random() < 0.3:
                        s.add("new %s %d %02x" % (kind, oid, rng.choice([0x00, 0xa5, 0xff, 0x01])))   # any prior content
                    s.add("%s init %d" % (kind, oid)); s.add("%s which %d" % (kind, oid))
                    o[2] = None        # unknown until the model tells (failalloc); treated as maybe-live
                    if not failalloc: o[2] = True
                else:
                    observe(rng, s, kind, oid, True)
            elif r < 0.45:
                s.add("%s cleanup %d" % (kind, oid)); o[2] = False
                if rng.random() < 0.5: s.add("%s cleanup %d" % (kind, oid))
                if rng.random() < 0.3: s.add("%s cleanup -" % kind)
            elif r < 0.6 and o[2] is False:
                valid_setup(rng, s, kind, oid); observe(rng, s, kind, oid, False)     # use after cleanup
            elif o[2] is not False:
                valid_setup(rng, s, kind, oid); observe(rng, s, kind, oid, True)
        for kind, oid, live in objs:
            s.add("%s cleanup %d" % (kind, oid))
        out.append(("life cycle %d%s" % (rep, " with allocation failures" if failalloc else ""), s.text()))
    return out

def gen_c16(rng, tier):
    """fail each allocation request of each init function, each back end, each prior object content"""
    s = S()
    for be in ("def", "v128", "v256"):
        s.add("cfg backend " + be)
        for kind in ("c128", "c64", "mc", "p128", "p64", "mp"):
            for fill in (0x00, 0xa5, 0xff, 0x01, rng.randrange(256)):
                for k in (1, 2):
                    o = s.new(kind, fill)
                    s.add("cfg failalloc %d" % k)
                    s.add("%s init %d" % (kind, o))
                    s.add("cfg failalloc 0")
                    s.add("%s which %d" % (kind, o))
                    # the object must be inert (k = 1) or fully usable (k = 2: nothing failed)
                    if kind in ("c128", "c64", "mc"):
                        s.add("%s crypt %d . 0" % (kind, o)); s.add("%s setctr %d . 0" % (kind, o)); s.add("%s setctr %d - 0" % (kind, o))
                    elif kind == "mp":
                        s.add("mp swap %d" % o); s.add("mp crypt %d . . 0" % o)
                    else:
                        s.add("%s enc %d . 0" % (kind, o)); s.add("%s dec %d . 0" % (kind, o))
                    valid_setup(rng, s, kind, o); observe(rng, s, kind, o, True)
                    s.add("%s cleanup %d" % (kind, o)); s.add("%s cleanup %d" % (kind, o))
                    # and it can be initialised again
                    s.add("%s init %d" % (kind, o)); valid_setup(rng, s, kind, o); observe(rng, s, kind, o, True)
                    s.add("%s cleanup %d" % (kind, o))
    return [("allocation failure in every init", s.text())] + gen_c15(rng, tier, failalloc=True)


# ---------------------------------------------------------------- mixtures used by C11 / C12 / C08
def gen_mix(rng, tier):
    """a compact mixture of the histories of C01-C07 and C10 (results compared with the model; the
    property-level metas are kept where they exist)"""
    out = []
    for t in gen_c01(rng, "light"): out.append((t[0], t[1], []))
    for t in gen_c02(rng, "light"): out.append((t[0], t[1], []))
    out += gen_c04(rng, "quick")
    out += gen_c05(rng, "quick")
    out += gen_c07(rng, "quick")
    out += gen_c10(rng, "quick")
    out += [(t[0], t[1], []) for t in gen_c15(rng, "quick")[:2]]
    return out

# ---------------------------------------------------------------- C19 (Arduino port)
ARD_PLAIN = [("s128_128", "k128", 16, 16), ("s128_256", "k128", 16, 32), ("s128_384", "k128", 16, 48),
             ("s64_64", "k64", 8, 8), ("s64_128", "k64", 8, 16), ("s64_192", "k64", 8, 24)]
ARD_TWEAKED = [("s128_256t", "t128", 16, 16), ("s128_384t", "t128", 16, 32),
               ("s64_128t", "t64", 8, 8), ("s64_192t", "t64", 8, 16)]
def gen_c19(rng, tier):
    """returns (title, arduino script, C-library script, pairs) where pairs = [(arduino line, C line)] whose `out` must agree,
    and refs = [(arduino line, [C lines], data hex)] for narrow-counter CTR streams"""
    out = []
    n = 25 if tier == "quick" else 200
    for cls, ck, bs, ksz in ARD_PLAIN:
        a = S(); c = S(); pairs = []
        a.add("new %s 1" % cls); k = c.new(ck)
        for _ in range(n):
            r = rng.random()
            if r < 0.12:
                bad = rng.choice([0, 1, ksz - 1, ksz + 1, ksz + bs, 64]); bad = bad if bad != ksz else ksz + 3
                a.add("1 setkey %s" % hexs(rbytes(rng, bad)))          # wrong length: rejected, state unchanged
            elif r < 0.2:
                a.add("1 clear")
                key = rbytes(rng, ksz); a.add("1 setkey %s" % hexs(key)); c.add("%s setkey %d %s %d" % (ck, k, hexs(key), ksz))
            else:
                key = rbytes(rng, ksz); a.add("1 setkey %s" % hexs(key)); c.add("%s setkey %d %s %d" % (ck, k, hexs(key), ksz))
            for _ in range(rng.randint(1, 4)):
                if len(a.lines) < 3 or not any(" setkey " in l and len(l.split()[2]) == 2 * ksz for l in a.lines):
                    break
                b = rbytes(rng, bs); d = rng.choice(["enc", "dec"])
                pairs.append((a.add("1 %s %s" % (d, hexs(b))), c.add("%s %s %d %s" % (ck, d, k, hexs(b)))))
        out.append((cls, a.text(), c.text(), pairs, []))
    for cls, ck, bs, ksz in ARD_TWEAKED:
        a = S(); c = S(); pairs = []
        a.add("new %s 1" % cls); k = c.new(ck)
        for _ in range(n):
            key = rbytes(rng, ksz); a.add("1 setkey %s" % hexs(key)); c.add("%s settk %d %s %d" % (ck, k, hexs(key), ksz))
            if rng.random() < 0.15:
                a.add("1 setkey %s" % hexs(rbytes(rng, ksz + bs)))       # the plain-class length is wrong here
            for _ in range(rng.randint(0, 6)):
                r = rng.random()
                if r < 0.15:
                    a.add("1 settweak %s %d" % (hexs(rbytes(rng, bs)), rng.choice([0, 1, bs - 1, bs + 1, 2 * bs])))   # rejected
                elif r < 0.3:
                    a.add("1 settweak - %d" % bs); c.add("%s settweak %d - %d" % (ck, k, bs))
                else:
                    tw = rbytes(rng, bs); a.add("1 settweak %s %d" % (hexs(tw), bs)); c.add("%s settweak %d %s %d" % (ck, k, hexs(tw), bs))
                b = rbytes(rng, bs); d = rng.choice(["enc", "dec"])
                pairs.append((a.add("1 %s %s" % (d, hexs(b))), c.add("%s %s %d %s" % (ck, d, k, hexs(b)))))
            b = rbytes(rng, bs)
            pairs.append((a.add("1 enc %s" % hexs(b)), c.add("%s enc %d %s" % (ck, k, hexs(b)))))
        out.append((cls, a.text(), c.text(), pairs, []))
    # Mantis8
    a = S(); c = S(); pairs = []
    a.add("new mantis8 1"); k = c.new("mk")
    for _ in range(n):
        key = rbytes(rng, 16); a.add("1 setkey %s" % hexs(key)); c.add("mk setkey %d %s 16 8 1" % (k, hexs(key)))
        if rng.random() < 0.2: a.add("1 setkey %s" % hexs(rbytes(rng, rng.choice([8, 15, 17, 32]))))
        for _ in range(rng.randint(1, 8)):
            r = rng.random()
            if r < 0.25: a.add("1 swap"); c.add("mk swap %d" % k)
            elif r < 0.35: a.add("1 settweak - 8"); c.add("mk settweak %d - 8" % k)
            elif r < 0.45: a.add("1 settweak %s %d" % (hexs(rbytes(rng, 8)), rng.choice([0, 7, 9, 16])))
            elif r < 0.7:
                tw = rbytes(rng, 8); a.add("1 settweak %s 8" % hexs(tw)); c.add("mk settweak %d %s 8" % (k, hexs(tw)))
            b = rbytes(rng, 8); d = rng.choice(["enc", "dec"])
            pairs.append((a.add("1 %s %s" % (d, hexs(b))), c.add("mk crypt %d %s" % (k, hexs(b)))))
    out.append(("mantis8", a.text(), c.text(), pairs, []))
    # CTR<T>
    for cls, ksz, tweaked in (("ctr_s128_128", 16, False), ("ctr_s128_256", 32, False), ("ctr_s128_384", 48, False),
                              ("ctr_s128_256t", 16, True), ("ctr_s128_384t", 32, True)):
        a = S(); c = S(); pairs = []; refs = []
        a.add("new %s 1" % cls); k = c.new("c128"); kk = c.new("t128" if tweaked else "k128")
        c.add("cfg backend " + rng.choice(["def", "v128", "v256"])); c.add("c128 init %d" % k)
        for it_ in range(max(4, n // 3)):
            key = rbytes(rng, ksz)
            iv = bytearray(rbytes(rng, 16)); nff = rng.choice([0, 0, 1, 2, 5, 15, 16])
            for i in range(nff): iv[15 - i] = 0xff
            csize = rng.choice([16, 16, 16, 1, 2, 4, 8, 15])
            iv_first = (it_ % 3 == 1)                 # the IV may be installed before the key: no key stream may be made from the old key
            def put_key():
                a.add("1 setkey %s" % hexs(key))
                c.add("c128 %s %d %s %d" % ("settk" if tweaked else "setkey", k, hexs(key), ksz))
                c.add("%s %s %d %s %d" % ("t128" if tweaked else "k128", "settk" if tweaked else "setkey", kk, hexs(key), ksz))
            if not iv_first: put_key()
            a.add("1 setctrsize %d" % csize)
            if rng.random() < 0.15: a.add("1 setctrsize %d" % rng.choice([0, 17, 100]))
            if rng.random() < 0.15: a.add("1 setiv %s" % hexs(rbytes(rng, rng.choice([0, 8, 15, 17]))))
            a.add("1 setiv %s" % hexs(bytes(iv))); c.add("c128 setctr %d %s 16" % (k, hexs(bytes(iv))))
            if iv_first: put_key()
            total = rng.choice([0, 1, 15, 16, 17, 31, 33, 64, rng.randint(0, 300)]); data = rbytes(rng, total)
            pos = 0; alines = []; clines = []
            for n_ in cut_list(rng, total, 16, 16):
                alines.append(a.add("1 crypt %s" % hexs(data[pos:pos + n_])))
                if csize == 16:
                    clines.append(c.add("c128 crypt %d %s %d" % (k, hexs(data[pos:pos + n_]), n_)))
                pos += n_
            if csize == 16:
                pairs += list(zip(alines, clines))
            else:
                # narrow counter (Arduino-only): reference keystream from the C library's single-block function
                ctrs = []; cur = bytes(iv)
                for i in range((total + 15) // 16):
                    ctrs.append(c.add("%s enc %d %s" % ("t128" if tweaked else "k128", kk, hexs(cur))))
                    low = (int.from_bytes(cur[16 - csize:], "big") + 1) % (1 << (8 * csize))
                    cur = cur[:16 - csize] + low.to_bytes(csize, "big")
                refs.append((alines, ctrs, data.hex()))
        out.append((cls, a.text(), c.text(), pairs, refs))
    return out
