"""Script generators, one family per property.  Every random choice comes from the
rng passed in (seeded from VERIF_SEED).  Generators return a list of (title, script) pairs."""
from common import hexs, rbytes

BS = {"128": 16, "64": 8}
ROUNDS = {"128": 56, "64": 40}

class S:
    """Script builder."""
    def __init__(self):
        self.lines = []
        self.nid = 0
    def add(self, line):
        self.lines.append(line)
        return len(self.lines)          # 1-based line number of the op just added
    def new(self, kind, fill=0):
        self.nid += 1
        self.add("new %s %d %02x" % (kind, self.nid, fill))
        return self.nid
    def text(self):
        return "\n".join(self.lines) + "\n"

def interesting_blocks(rng, n, count):
    out = [bytes(n), bytes([0xff]) * n]
    for i in range(n * 8):                      # single-bit blocks
        b = bytearray(n); b[i // 8] = 0x80 >> (i % 8); out.append(bytes(b))
    out += [rbytes(rng, n) for _ in range(count)]
    return out

def sweep_blocks(rng, n):
    """every byte value in every state position, over a random background"""
    base = rbytes(rng, n)
    out = []
    for pos in range(n):
        for v in range(256):
            b = bytearray(base); b[pos] = v; out.append(bytes(b))
    return out

VECTORS_SK = [
    ("64", "f5269826fc681238", "06034f957724d19d"),
    ("64", "9eb93640d088da6376a39d1c8bea71e1", "cf16cfe8fd0f98aa"),
    ("64", "ed00c85b120d68618753e24bfd908f60b2dbb41b422dfcd0", "530c61d35e8663c3"),
    ("128", "4f55cfb0520cac52fd92c15f37073e93", "f20adb0eb08b648a3b2eeed1f0adda14"),
    ("128", "009cec81605d4ac1d2ae9e3085d7a1f31ac123ebfc00fddcf01046ceeddfcab3", "3a0c47767a26a68dd382a695e7022e25"),
    ("128", "df889548cfc7ea52d296339301797449ab588a34a47f1ab2dfe9c8293fbea9a5ab1afac2611012cd8cef952618c3ebe8",
     "a3994b66ad85a3459f44e92b08f550cb"),
]

# ---------------------------------------------------------------- C01
def gen_c01(rng, tier):
    scripts = []
    nrand = 40 if tier == "quick" else 400
    for w in ("128", "64"):
        bs = BS[w]
        for z in (1, 2, 3):
            s = S()
            k = s.new("k" + w, rng.choice([0, 0xa5, 0xff]))
            keys = [bytes(bs * z), bytes([0xff]) * (bs * z)]
            for i in rng.sample(range(bs * z * 8), 6):
                b = bytearray(bs * z); b[i // 8] = 0x80 >> (i % 8); keys.append(bytes(b))
            keys += [rbytes(rng, bs * z) for _ in range(3 if tier == "quick" else 12)]
            for w2, kh, ph in VECTORS_SK:
                if w2 == w and len(kh) == 2 * bs * z:
                    s.add("k%s setkey %d %s %d" % (w, k, kh, bs * z))
                    s.add("k%s enc %d %s" % (w, k, ph))
                    s.add("k%s dec %d %s" % (w, k, ph))
            for key in keys:
                s.add("k%s setkey %d %s %d" % (w, k, hexs(key), bs * z))
                s.add("k%s img %d" % (w, k))
                for b in interesting_blocks(rng, bs, nrand)[: (30 if tier == "quick" else 10**6)]:
                    s.add("k%s enc %d %s" % (w, k, hexs(b)))
                    s.add("k%s dec %d %s" % (w, k, hexs(b)))
            # one-entry S-box errors: every byte value in every position
            s.add("k%s setkey %d %s %d" % (w, k, hexs(rbytes(rng, bs * z)), bs * z))
            for b in sweep_blocks(rng, bs):
                s.add("k%s enc %d %s" % (w, k, hexs(b)))
            for b in sweep_blocks(rng, bs)[:: (4 if tier == "quick" else 1)]:
                s.add("k%s dec %d %s" % (w, k, hexs(b)))
            scripts.append(("skinny%s z=%d" % (w, z), s.text()))
    return scripts

# ---------------------------------------------------------------- C02
MKEY = "92f09952c625e3e9d7a060f714c0292b"
MTW = "ba912e6f1055fed2"
MVEC = {5: "3b5c77a4921f9718", 6: "d6522035c1c0c6c1", 7: "60e4345731 1936fd".replace(" ", ""), 8: "308e8a07f168f517"}
def gen_c02(rng, tier):
    scripts = []
    nrand = 30 if tier == "quick" else 300
    for r in (5, 6, 7, 8):
        for mode in (1, 0):
            s = S()
            m = s.new("mk", rng.choice([0, 0x5a]))
            s.add("mk setkey %d %s 16 %d %d" % (m, MKEY, r, mode))
            s.add("mk crypt %d %s" % (m, MVEC[r]))                   # fresh schedule: zero tweak
            s.add("mk settweak %d %s 8" % (m, MTW))
            s.add("mk crypt %d %s" % (m, MVEC[r]))
            s.add("mk cryptt %d %s %s" % (m, MVEC[r], MTW))
            keys = [bytes(16), bytes([0xff]) * 16] + [rbytes(rng, 16) for _ in range(3 if tier == "quick" else 10)]
            for i in rng.sample(range(128), 4):
                b = bytearray(16); b[i // 8] = 0x80 >> (i % 8); keys.append(bytes(b))
            for key in keys:
                s.add("mk setkey %d %s 16 %d %d" % (m, hexs(key), r, mode))
                s.add("mk img %d" % m)
                s.add("mk crypt %d %s" % (m, hexs(rbytes(rng, 8))))
                for tw in [bytes(8), bytes([0xff]) * 8] + [rbytes(rng, 8) for _ in range(4)]:
                    blk = rbytes(rng, 8)
                    s.add("mk settweak %d %s 8" % (m, hexs(tw)))
                    a = s.add("mk crypt %d %s" % (m, hexs(blk)))
                    s.add("mk cryptt %d %s %s" % (m, hexs(blk), hexs(tw)))
                s.add("mk settweak %d - 8" % m)
                s.add("mk crypt %d %s" % (m, hexs(rbytes(rng, 8))))
                for b in interesting_blocks(rng, 8, nrand)[: (40 if tier == "quick" else 10**6)]:
                    s.add("mk cryptt %d %s %s" % (m, hexs(b), hexs(rbytes(rng, 8))))
            s.add("mk setkey %d %s 16 %d %d" % (m, hexs(rbytes(rng, 16)), r, mode))
            tw = rbytes(rng, 8)
            for b in sweep_blocks(rng, 8)[:: (2 if tier == "quick" else 1)]:
                s.add("mk cryptt %d %s %s" % (m, hexs(b), hexs(tw)))
            for t in sweep_blocks(rng, 8)[:: (4 if tier == "quick" else 1)]:
                s.add("mk cryptt %d %s %s" % (m, hexs(b), hexs(t)))
            scripts.append(("mantis r=%d mode=%d" % (r, mode), s.text()))
    return scripts

# ---------------------------------------------------------------- C03
def gen_c03(rng, tier):
    """round trips through every entry point; results are checked at property level by the
    caller (meta: list of (line_of_restored_output, expected hex))"""
    scripts = []
    n = 25 if tier == "quick" else 250
    for w in ("128", "64"):
        bs = BS[w]
        s = S(); meta = []
        k = s.new("k" + w); t = s.new("t" + w); p = s.new("p" + w)
        s.add("p%s init %d" % (w, p))
        for _ in range(n):
            ksz = rng.choice([bs, 2 * bs, 3 * bs])
            key = rbytes(rng, ksz)
            s.add("k%s setkey %d %s %d" % (w, k, hexs(key), ksz))
            s.add("p%s setkey %d %s %d" % (w, p, hexs(key), ksz))
            tsz = rng.choice([bs, 2 * bs])
            s.add("t%s settk %d %s %d" % (w, t, hexs(rbytes(rng, tsz)), tsz))
            tl = rng.randint(1, bs)
            s.add("t%s settweak %d %s %d" % (w, t, hexs(rbytes(rng, tl)), tl))
            for kind, o in (("k", k), ("t", t)):
                b = rbytes(rng, bs)
                a = s.add("%s%s enc %d %s" % (kind, w, o, hexs(b)))
                r_ = s.add("%s%s dec %d @%d" % (kind, w, o, a)); meta.append((r_, hexs(b)))
                a = s.add("%s%s dec %d %s" % (kind, w, o, hexs(b)))
                r_ = s.add("%s%s enc %d @%d" % (kind, w, o, a)); meta.append((r_, hexs(b)))
            nb = rng.choice([0, 1, 2, 3, 4, 5, 7, 8, 9, 12, 15, 16, 17, 24, 25, 33])
            data = rbytes(rng, nb * bs)
            a = s.add("p%s enc %d %s %d" % (w, p, hexs(data), nb * bs))
            r_ = s.add("p%s dec %d @%d %d" % (w, p, a, nb * bs)); meta.append((r_, hexs(data)))
            a = s.add("p%s dec %d %s %d" % (w, p, hexs(data), nb * bs))
            r_ = s.add("p%s enc %d @%d %d" % (w, p, a, nb * bs)); meta.append((r_, hexs(data)))
        s.add("p%s cleanup %d" % (w, p))
        scripts.append(("skinny%s round trips" % w, s.text(), meta))
    # MANTIS: swap algebra
    s = S(); meta = []
    m = s.new("mk"); m2 = s.new("mk"); p = s.new("mp")
    s.add("mp init %d" % p)
    for _ in range(n):
        key = rbytes(rng, 16); r = rng.randint(5, 8); mode = rng.randint(0, 1)
        s.add("mk setkey %d %s 16 %d %d" % (m, hexs(key), r, mode))
        s.add("mp setkey %d %s 16 %d %d" % (p, hexs(key), r, mode))
        tw = rbytes(rng, 8)
        s.add("mk settweak %d %s 8" % (m, hexs(tw)))
        b = rbytes(rng, 8)
        a = s.add("mk crypt %d %s" % (m, hexs(b)))
        s.add("mk swap %d" % m)
        r_ = s.add("mk crypt %d @%d" % (m, a)); meta.append((r_, hexs(b)))
        # switching once = keying afresh in the other mode and re-applying the tweak
        s.add("mk setkey %d %s 16 %d %d" % (m2, hexs(key), r, 1 - mode))
        s.add("mk settweak %d %s 8" % (m2, hexs(tw)))
        i1 = s.add("mk img %d" % m); i2 = s.add("mk img %d" % m2); meta.append(("same", i1, i2))
        # a random history of swaps and tweak changes
        par = 1 - mode; last = tw
        for _ in range(rng.randint(0, 6)):
            if rng.random() < 0.5:
                s.add("mk swap %d" % m); par = 1 - par
            else:
                last = rbytes(rng, 8); s.add("mk settweak %d %s 8" % (m, hexs(last)))
        s.add("mk setkey %d %s 16 %d %d" % (m2, hexs(key), r, par))
        s.add("mk settweak %d %s 8" % (m2, hexs(last)))
        i1 = s.add("mk img %d" % m); i2 = s.add("mk img %d" % m2); meta.append(("same", i1, i2))
        # swap twice restores
        i0 = s.add("mk img %d" % m); s.add("mk swap %d" % m); s.add("mk swap %d" % m)
        i1 = s.add("mk img %d" % m); meta.append(("same", i0, i1))
        # parallel object: crypt, swap, crypt restores
        nb = rng.choice([0, 1, 3, 7, 8, 9, 16, 17, 20])
        data = rbytes(rng, nb * 8); tws = rbytes(rng, nb * 8)
        a = s.add("mp crypt %d %s %s %d" % (p, hexs(data), hexs(tws), nb * 8))
        s.add("mp swap %d" % p)
        r_ = s.add("mp crypt %d @%d %s %d" % (p, a, hexs(tws), nb * 8)); meta.append((r_, hexs(data)))
    s.add("mp cleanup %d" % p)
    scripts.append(("mantis swaps", s.text(), meta))
    return scripts

# ---------------------------------------------------------------- C04
def gen_c04(rng, tier):
    scripts = []
    n = 12 if tier == "quick" else 120
    for w in ("128", "64"):
        bs = BS[w]
        s = S(); meta = []
        t = s.new("t" + w, 0xa5); t2 = s.new("t" + w, 0)
        c = s.new("c" + w, 0); c2 = s.new("c" + w, 0)
        for be in ("def", "v128", "v256"):
            s.add("cfg backend " + be)
            s.add("c%s init %d" % (w, c)); s.add("c%s init %d" % (w, c2))
            for _ in range(n):
                ksz = rng.choice([bs, 2 * bs])
                key = rbytes(rng, ksz)
                s.add("t%s settk %d %s %d" % (w, t, hexs(key), ksz))
                s.add("t%s img %d" % (w, t))
                blk = rbytes(rng, bs)
                s.add("t%s enc %d %s" % (w, t, hexs(blk)))          # fresh schedule: zero tweak
                s.add("c%s settk %d %s %d" % (w, c, hexs(key), ksz))
                last = None
                for _ in range(rng.randint(1, 8 if tier == "quick" else 40)):
                    r = rng.random()
                    if r < 0.12:
                        tl = rng.choice([0, bs + 1, bs + 7, 2**31, 2**32 - 1]); tw = rbytes(rng, min(tl, 4))
                        s.add("t%s settweak %d %s %d" % (w, t, hexs(tw), tl))
                        s.add("c%s settweak %d %s %d" % (w, c, hexs(tw), tl))
                        continue
                    if r < 0.24:
                        tl = rng.randint(1, bs)
                        s.add("t%s settweak %d - %d" % (w, t, tl))
                        s.add("c%s settweak %d - %d" % (w, c, tl)); last = (None, tl)
                    else:
                        tl = rng.randint(1, bs); tw = rbytes(rng, tl)
                        s.add("t%s settweak %d %s %d" % (w, t, hexs(tw), tl))
                        s.add("c%s settweak %d %s %d" % (w, c, hexs(tw), tl)); last = (tw, tl)
                    if rng.random() < 0.4:
                        s.add("t%s img %d" % (w, t))
                        s.add("t%s enc %d %s" % (w, t, hexs(rbytes(rng, bs))))
                i1 = s.add("t%s img %d" % (w, t))
                e1 = s.add("t%s enc %d %s" % (w, t, hexs(blk)))
                d1 = s.add("t%s dec %d %s" % (w, t, hexs(blk)))
                # history independence: a fresh schedule with only the last tweak
                s.add("t%s settk %d %s %d" % (w, t2, hexs(key), ksz))
                s.add("c%s settk %d %s %d" % (w, c2, hexs(key), ksz))
                if last is not None:
                    tw, tl = last
                    s.add("t%s settweak %d %s %d" % (w, t2, "-" if tw is None else hexs(tw), tl))
                    s.add("c%s settweak %d %s %d" % (w, c2, "-" if tw is None else hexs(tw), tl))
                    # a short tweak = the same bytes followed by zeros; NULL = zeros
                    full = (bytes(bs) if tw is None else tw + bytes(bs - tl))
                    s.add("t%s settweak %d %s %d" % (w, t2, hexs(full), bs))
                i2 = s.add("t%s img %d" % (w, t2)); meta.append(("same", i1, i2))
                e2 = s.add("t%s enc %d %s" % (w, t2, hexs(blk))); meta.append(("same", e1, e2))
                d2 = s.add("t%s dec %d %s" % (w, t2, hexs(blk))); meta.append(("same", d1, d2))
                # through the CTR tweak API: same keystream
                cn = rng.randint(0, bs); cb = rbytes(rng, cn)
                data = bytes(rng.choice([bs, 3 * bs, 5 * bs + 3, 9 * bs + 1]))
                s.add("c%s setctr %d %s %d" % (w, c, hexs(cb), cn))
                s.add("c%s setctr %d %s %d" % (w, c2, hexs(cb), cn))
                x1 = s.add("c%s crypt %d %s %d" % (w, c, hexs(data), len(data)))
                x2 = s.add("c%s crypt %d %s %d" % (w, c2, hexs(data), len(data))); meta.append(("same", x1, x2))
            s.add("c%s cleanup %d" % (w, c)); s.add("c%s cleanup %d" % (w, c2))
        scripts.append(("tweak histories skinny%s" % w, s.text(), meta))
    return scripts
