#!/usr/bin/env python3
"""./check <Cnn> [--tier quick|thorough] [--replay path]
Decides one property: (1) re-checks the Coq theorems of Properties_<Cnn>.v (full .vo build) and the
hygiene of the development; (2) runs the correspondence between the extracted model and the library
built from /repo's working tree on generated operation scripts; (3) property-level oracles on the
library's own output; writes evidence/<Cnn>.json; prints VIOLATION / KNOWN-FINDING lines."""
import argparse, hashlib, json, os, random, re, sys, time
sys.path.insert(0, os.path.dirname(os.path.abspath(__file__)))
import common as C
import gens as G

class Run:
    def __init__(self, prop, tier, seed):
        self.prop, self.tier, self.seed = prop, tier, seed
        self.rng = random.Random("%s/%s/%d" % (prop, tier, seed))
        self.work = C.Work()
        self.t0 = time.time()
        self.violations = []        # (replay path, description, no_input_found)
        self.known = []
        self.stats = {"scripts": 0, "ops": 0, "shapes": set(), "variants": set(), "op_kinds": {}, "lines": set(),
                      "oracle_checks": 0, "ret0": 0, "ret1": 0}
        self.samples = []
        self.model = None
        self.model_cache = {}
        self.notes = []

    # -- model output, cached per script and build switches
    def model_out(self, variant, script):
        key = (hashlib.sha1(script.encode()).hexdigest(), variant.has128, variant.has256)
        if key not in self.model_cache:
            self.model_cache[key] = C.run_model(self.model, variant, script)
        return self.model_cache[key]

    def account(self, title, script, variant):
        self.stats["scripts"] += 1
        self.stats["variants"].add(variant.name)
        for l in script.splitlines():
            if l and not l.startswith("#"):
                self.stats["ops"] += 1
                self.stats["shapes"].add(C.shape(l))
                self.stats["lines"].add(hash(l))
                t = l.split()
                k = " ".join(t[:2]) if t[0] not in ("new", "probe") else t[0]
                self.stats["op_kinds"][k] = self.stats["op_kinds"].get(k, 0) + 1
        if len(self.samples) < 4:
            ls = [l for l in script.splitlines() if l]
            self.samples.append({"title": title, "variant": variant.name, "first_ops": [l[:160] for l in ls[:8]],
                                 "ops": len(ls)})

    def correspond(self, title, script, variant, wrapper=(), env_extra=None):
        """library == model on this script; returns the library's output lines (dict lineno -> text) or None"""
        self.account(title, script, variant)
        rc, out, err = C.run_driver(variant, script, wrapper=wrapper, env_extra=env_extra)
        mrc, mout, merr = self.model_out(variant, script)
        mm = None
        if mrc != 0 or "MODEL-UNDEFINED" in mout:
            mm = C.Mismatch("harness", variant, script, out, mout, "model runner rejected the script: " + (merr or
                 [l for l in mout.splitlines() if "MODEL-UNDEFINED" in l][0])[-300:])
        elif rc == 2:
            mm = C.Mismatch("harness", variant, script, out, mout, "driver rejected the script: " + err[-300:])
        elif rc != 0:
            mm = C.Mismatch("crash", variant, script, out, mout, "driver exit status %d: %s" % (
                 rc, " | ".join((err.strip().splitlines() or [""])[:6])[:600]))
        else:
            d = C.first_diff(out, mout)
            if d is not None:
                mm = C.Mismatch("diff", variant, script, out, mout,
                                "library `%s` / model `%s`" % (d[1][:200], d[2][:200]))
        self.stats["ret0"] += out.count(" ret 0"); self.stats["ret1"] += out.count(" ret 1")
        if mm is None:
            return parse_out(out)
        if mm.kind == "harness":
            raise RuntimeError("harness error (not a finding): %s\nscript title: %s" % (mm.detail, title))
        self.report_mismatch(title, mm, wrapper, env_extra)
        return None

    def report_mismatch(self, title, mm, wrapper=(), env_extra=None):
        variant = mm.variant
        def still(sc):
            rc, out, err = C.run_driver(variant, sc, wrapper=wrapper, env_extra=env_extra, timeout=120)
            mrc, mout, merr = C.run_model(self.model, variant, sc)
            if mrc != 0 or "MODEL-UNDEFINED" in mout or rc == 2:
                return False
            return rc != 0 or C.first_diff(out, mout) is not None
        small = C.shrink(mm.script, still) if len(mm.script) < 400000 else mm.script
        rc, out, err = C.run_driver(variant, small, wrapper=wrapper, env_extra=env_extra)
        mrc, mout, merr = C.run_model(self.model, variant, small)
        d = C.first_diff(out, mout)
        desc = {"property": self.prop, "kind": "correspondence",
                "what": "the library built from /repo disagrees with the verified model (%s)" % title,
                "variant": variant.name, "wrapper": list(wrapper),
                "detail": ("driver exit status %d: %s" % (rc, err[-600:])) if rc != 0 else
                          ("line %d: library `%s` / model `%s`" % (d[0] + 1, d[1][:400], d[2][:400]) if d else mm.detail),
                "script": [l for l in small.splitlines()],
                "library_output": out.splitlines()[-12:], "model_output": mout.splitlines()[-12:],
                "seed": self.seed, "tier": self.tier}
        self.add_violation(desc)

    def add_violation(self, desc, no_input=False):
        os.makedirs(os.environ.get("SKV_REPLAY_DIR", os.path.join(C.VERIF, "replays")), exist_ok=True)
        h = hashlib.sha1(json.dumps(desc, sort_keys=True).encode()).hexdigest()[:10]
        path = os.path.join(os.environ.get("SKV_REPLAY_DIR", os.path.join(C.VERIF, "replays")), "%s-%s.json" % (self.prop, h))
        json.dump(desc, open(path, "w"), indent=1)
        self.violations.append((path, desc.get("what", ""), no_input))

    def oracle_fail(self, title, variant, script, what, lines):
        """a property-level failure seen on the library's own output"""
        keep = set(lines)
        desc = {"property": self.prop, "kind": "property-oracle", "what": what + " (" + title + ")",
                "variant": variant.name, "lines": sorted(keep), "script": script.splitlines(),
                "seed": self.seed, "tier": self.tier}
        self.add_violation(desc)

def parse_out(out):
    res = {}
    for l in out.splitlines():
        m = re.match(r"(\d+) (.*)", l)
        if m:
            res.setdefault(int(m.group(1)), []).append(m.group(2))
    return res

def outhex(res, ln):
    """the `out` payload of line ln ('' if none)"""
    for t in res.get(ln, []):
        m = re.search(r"out (\S+)", t)
        if m:
            return "" if m.group(1) == "." else m.group(1)
    return None

def last_line(res, ln):
    l = res.get(ln, [])
    return l[-1] if l else None

def used_part(line):
    """for an `img` line of a SKINNY schedule: the round count, the slots that the round count covers and the
    tweak (slots beyond the round count keep whatever the memory held before and are not part of the schedule)"""
    if not line or not line.startswith("img "):
        return line
    t = line.split()
    nbytes = len(t[2]) // 2
    slot = {448: 8, 160: 4}.get(nbytes)
    if slot is None:
        return line
    return " ".join([t[0], t[1], t[2][: 2 * slot * min(int(t[1]), nbytes // slot)]] + t[3:])

def apply_meta(run, title, variant, script, res, meta):
    """property-level oracles described by the generator"""
    for m in meta:
        run.stats["oracle_checks"] += 1
        if m[0] == "same":
            if used_part(last_line(res, m[1])) != used_part(last_line(res, m[2])):
                run.oracle_fail(title, variant, script, "results of lines %d and %d must be identical: `%s` vs `%s`" % (
                    m[1], m[2], str(last_line(res, m[1]))[:120], str(last_line(res, m[2]))[:120]), [m[1], m[2]])
        elif m[0] == "stream":
            cat = "".join(outhex(res, l) or "" for l in m[1])
            ref = outhex(res, m[2]) or ""
            if cat != ref:
                run.oracle_fail(title, variant, script, "concatenated output of the split calls differs from the single call", m[1] + [m[2]])
        elif m[0] == "blocks":
            cat = "".join(outhex(res, l) or "" for l in m[2])
            if (outhex(res, m[1]) or "") != cat:
                run.oracle_fail(title, variant, script, "parallel result differs from block-by-block result", [m[1]] + m[2])
        elif m[0] == "rekey":
            pass
        elif isinstance(m[0], int):
            got = outhex(res, m[0])
            exp = "" if m[1] == "." else m[1]
            if got != exp:
                run.oracle_fail(title, variant, script, "round trip did not restore the data at line %d" % m[0], [m[0]])

# ----------------------------------------------------------------------
# per-property drivers
def std_variants(run, cfgs=("native",), ccs=("gcc",), opts=("-O2",), san=""):
    vs = []
    for cfg in cfgs:
        for cc in ccs:
            for opt in opts:
                vs.append(C.build_variant(run.work, cfg, cc, opt, san))
    return vs

def run_scripts(run, scripts, variants):
    for item in scripts:
        title, script = item[0], item[1]
        meta = item[2] if len(item) > 2 else []
        for v in variants:
            res = run.correspond(title, script, v)
            if res is not None and meta:
                apply_meta(run, title, v, script, res, meta)

ALL_PARTS = ("scalar", "v128ctr", "v128par", "v256ctr", "v256par")
def kernel_tie(run, cfgs, parts=("scalar",)):
    import kernels as K
    run.kernel_failures = K.check_kernels(run, list(cfgs), parts)

def whole_tie(run, cfgs, parts):
    import whole as W
    run.whole_failures = getattr(run, "whole_failures", []) + W.check_whole(run, list(cfgs), list(parts))

def p_c01(run):
    cfgs = ("native", "w32", "neutral") if run.tier == "quick" else tuple(C.CONFIGS)
    kernel_tie(run, ("native", "w32", "neutral") if run.tier == "quick" else ("native", "w32", "neutral", "neutral32"))
    import whole as W
    prim = ["key128_sk_16", "key128_sk_32", "key128_sk_48", "key64_sk_8", "key64_sk_16", "key64_sk_24"]
    if run.tier == "quick": whole_tie(run, ("native", "w32"), W.QUICK_BLK + prim)
    else: whole_tie(run, ("native", "w32", "neutral", "neutral32"), W.BLK_PARTS + prim)
    run_scripts(run, G.gen_c01(run.rng, run.tier), std_variants(run, cfgs))
def p_c02(run):
    cfgs = ("native", "w32", "neutral") if run.tier == "quick" else tuple(C.CONFIGS)
    kernel_tie(run, ("native", "w32", "neutral") if run.tier == "quick" else ("native", "w32", "neutral", "neutral32"))
    import whole as W
    if run.tier == "quick": whole_tie(run, ("native", "w32", "neutral"), W.QUICK_MBLK + W.QUICK_MKEY)
    else: whole_tie(run, ("native", "w32", "noua", "neutral", "neutral32"), W.MBLK_PARTS + W.MKEY_PARTS)
    run_scripts(run, G.gen_c02(run.rng, run.tier), std_variants(run, cfgs))
def p_c03(run):
    cfgs = ("native", "nosimd32", "noua") if run.tier == "quick" else ("native", "w32", "noua", "w32noua", "nosimd", "nosimd32", "neutral")
    vs = std_variants(run, cfgs)
    kernel_tie(run, ("native", "w32") if run.tier == "quick" else ("native", "w32", "neutral", "neutral32"))
    import whole as W
    if run.tier == "quick": whole_tie(run, ("native", "w32"), [p_ for p_ in W.QUICK_BLK if "dec" in p_] + W.QUICK_MBLK[1:3] + ["mkey_setkey_6_0", "mkey_swap"])
    else: whole_tie(run, ("native", "w32", "neutral", "neutral32"), [p_ for p_ in W.BLK_PARTS if "dec" in p_] + W.MBLK_PARTS + [p_ for p_ in W.MKEY_PARTS if "setkey_" in p_ or "swap" in p_])
    for title, script, meta in G.gen_c03(run.rng, run.tier):
        for v in vs:
            for be in (("def", "v128", "v256") if v.has128 else ("def",)):
                sc = "cfg backend %s\n" % be + script
                mt = [(m[0] + 1, m[1]) if isinstance(m[0], int) else (m[0], m[1] + 1, m[2] + 1) for m in meta]
                # "@N" references inside the script must shift too
                sc = re.sub(r"@(\d+)", lambda mo: "@%d" % (int(mo.group(1)) + 1), sc)
                res = run.correspond(title + " on " + be, sc, v)
                if res is not None:
                    apply_meta(run, title, v, sc, res, mt)
def p_c04(run):
    cfgs = ("native", "w32") if run.tier == "quick" else ("native", "w32", "noua", "nosimd", "neutral", "neutral32")
    kernel_tie(run, ("native", "w32") if run.tier == "quick" else ("native", "w32", "neutral", "neutral32"))
    import whole as W
    q = run.tier == "quick"
    whole_tie(run, ("native", "w32") if q else ("native", "w32", "neutral", "neutral32"), W.parts_tweak("128", q) + W.parts_tweak("64", q))
    whole_tie(run, ("native",) if q else ("native", "w32", "noua"), W.kctr_parts(q, "tweak"))
    run_scripts(run, G.gen_c04(run.rng, run.tier), std_variants(run, cfgs))
def p_c05(run):
    cfgs = ("native",) if run.tier == "quick" else ("native", "w32", "noua", "w32noua")
    import whole as W
    q = run.tier == "quick"
    whole_tie(run, ("native", "w32") if q else ("native", "w32", "noua", "neutral", "neutral32"), W.pctr_parts(q))
    whole_tie(run, ("native",) if q else ("native", "w32", "neutral"), W.comp_parts(q))
    whole_tie(run, ("native",) if q else ("native", "w32", "noua"), W.vctr_parts(q) + W.sctr_parts(q))
    run_scripts(run, G.gen_c05(run.rng, run.tier), std_variants(run, cfgs))

KNOWN = json.load(open(os.path.join(C.VERIF, "known_findings.json")))

def p_c06(run):
    v = std_variants(run, ("native",))[0]
    kernel_tie(run, ("native", "w32"), ALL_PARTS)
    # the parallel-ECB function of EVERY back end is the same list of procedure calls up to grouping, and block by block under
    # the calls' contracts (WholePar.ppar_model): one statement for all back ends
    import whole as W
    whole_tie(run, ("native",), [p_ for p_ in W.ppar_parts(run.tier == "quick") if "_enc_" in p_ or run.tier != "quick"])
    # CTR: the generic and every SIMD encryption function equal ModelCtr.crypt at batch size 1 / 4 / 8 on the image (pctr_model,
    # vctr_model_*); api_ctr*_backend_independent relates the three batch sizes
    whole_tie(run, ("native",), W.pctr_parts(True)[:3] + W.vctr_parts(run.tier == "quick")[:2 if run.tier == "quick" else None])
    for title, body, meta in G.gen_c06(run.rng, run.tier):
        kind = title.split()[0]
        bes = ["def", "v128", "v256"] if kind in ("c128", "p128") else ["def", "v128"]
        outs = {}
        for be in bes:
            sc = "cfg backend %s\n" % be + body
            outs[be] = run.correspond(title + " on " + be, sc, v)
        if any(o is None for o in outs.values()):
            continue
        # the property itself: every result line equal on every back end (which/psize/alloc lines aside)
        def vis(res):
            return {ln: [t for t in ts if not t.startswith(("which", "psize"))] for ln, ts in res.items()}
        ref = vis(outs["def"])
        rekey_lines = {m[1] for m in meta}
        for be in bes[1:]:
            cur = vis(outs[be])
            run.stats["oracle_checks"] += 1
            diff = sorted(ln for ln in set(ref) | set(cur) if ref.get(ln) != cur.get(ln))
            if not diff:
                continue
            # known finding KF-C06-1: the only differences are in data calls that follow a successful key/tweak
            # change made mid-batch with no counter set in between — and (checked above) every back end's
            # output equals its faithful model
            sc_lines = ("cfg backend %s\n" % be + body).splitlines()
            if all(kf_c06_1_applies(sc_lines, ln, outs["def"]) for ln in diff):
                run.known.append("property=C06 KF-C06-1 mid-stream key/tweak change without a counter set continues at a "
                                 "back-end dependent counter (generic vs SIMD output differs from there on)")
                run.notes.append("KF-C06-1 matched: script '%s', def vs %s, first differing line %d" % (title, be, diff[0]))
            else:
                run.oracle_fail(title, v, "cfg backend <def|%s>\n" % be + body,
                                "back ends def and %s give different results at line(s) %s" % (be, diff[:6]), diff[:6])

def kf_c06_1_applies(lines, ln, res):
    """line ln (1-based) is a CTR data call whose stream was rekeyed mid-way: walking back from ln on the
    same object we meet a successful setkey/settk/settweak before any setctr/init, and before that rekey
    data had been processed since the last counter set."""
    t = lines[ln - 1].split()
    if len(t) < 3 or t[1] != "crypt" or t[0] not in ("c128", "c64", "mc"):
        return False
    obj = t[2]
    seen_rekey = False
    for i in range(ln - 2, -1, -1):
        u = lines[i].split()
        if len(u) < 3 or u[0] != t[0] or u[2] != obj:
            continue
        ok = any(x.startswith("ret 1") for x in res.get(i + 1, []))
        if u[1] in ("setctr", "init") and ok:
            return False
        if u[1] in ("setkey", "settk", "settweak") and ok:
            seen_rekey = True
        if u[1] == "crypt" and ok and seen_rekey and int(u[4]) > 0:
            return True
    return False

def p_c07(run):
    cfgs = ("native", "no256", "nosimd") if run.tier == "quick" else ("native", "no256", "nosimd", "w32", "noua", "w32noua")
    kernel_tie(run, ("native", "w32"), ("scalar", "v128par", "v256par"))
    import whole as W
    q = run.tier == "quick"
    whole_tie(run, ("native",) if q else ("native", "w32", "noua"), W.ppar_parts(q))
    run_scripts(run, G.gen_c07(run.rng, run.tier), std_variants(run, cfgs))

def p_c09(run):
    vs = [C.build_variant(run.work, "native", "gcc", "-O1", "asan"), C.build_variant(run.work, "native", "gcc", "-O2")]
    if run.tier != "quick":
        vs += [C.build_variant(run.work, "noua", "gcc", "-O1", "asan"), C.build_variant(run.work, "w32", "clang", "-O1", "asan"),
               C.build_variant(run.work, "nosimd", "gcc", "-O1", "asan")]
    # every load and store of the translated whole functions lies inside its buffer as sized by the arguments (wf_prog of the
    # flattened code, re-proved per public configuration): single-block API, key schedule at every key length, CTR and
    # parallel back ends (generic and SIMD) at sampled lengths / offsets
    import whole as W
    q = run.tier == "quick"
    whole_tie(run, ("native", "noua") if q else ("native", "w32", "noua", "neutral"),
              (W.QUICK_BLK if q else W.BLK_PARTS) + W.key_parts("128", q) + W.key_parts("64", q) + W.ct_part_names(q))
    run_scripts(run, G.gen_c09(run.rng, run.tier), vs)

def p_c10(run):
    cfgs = ("native", "w32", "neutral") if run.tier == "quick" else tuple(C.CONFIGS)
    vs = std_variants(run, cfgs)
    if run.tier != "quick":
        vs.append(C.build_variant(run.work, "native", "gcc", "-O1", "asan"))
    import whole as W
    q = run.tier == "quick"
    whole_tie(run, ("native", "w32") if q else ("native", "w32", "neutral", "neutral32"),
              [p_ for p_ in W.key_parts("128", q) + W.key_parts("64", q) if "_st_" not in p_] +
              [p_ for p_ in (W.QUICK_MKEY if q else W.MKEY_PARTS) if "setkey" in p_])
    # the same key lengths through the key-setting functions of the CTR back ends (WholeCtrKey.v)
    whole_tie(run, ("native",) if q else ("native", "w32", "noua"), W.kctr_parts(q, "key") + W.kpar_parts(q))
    run_scripts(run, G.gen_c10(run.rng, run.tier), vs)

def p_c13(run):
    vs = std_variants(run, ("native", "no256", "nosimd"))      # selection must respect what is compiled in
    if run.tier != "quick":
        vs += [C.build_variant(run.work, "native", "clang", "-O2"),
                                                   C.build_variant(run.work, "native", "gcc", "-O0")]
    run_scripts(run, G.gen_c13(run.rng, run.tier), vs)

def p_c14(run):
    vs = [C.build_variant(run.work, "native", "gcc", "-O1", "asan")]
    if run.tier != "quick":
        vs += std_variants(run, ("native", "nosimd32"))
    for title, script, inv in G.gen_c14(run.rng, run.tier):
        for v in vs:
            res = run.correspond(title, script, v)
            if res is None:
                continue
            # every injected call returned 0 ...
            for ln in inv:
                run.stats["oracle_checks"] += 1
                if not any(t.startswith("ret 0") for t in res.get(ln, [])):
                    run.oracle_fail(title, v, script, "invalid call at line %d did not return 0: %s" % (ln, res.get(ln)), [ln])
            # ... and changed nothing: the same history without them gives the same results everywhere else
            lines = script.splitlines()
            for ln in inv:
                lines[ln - 1] = "#"
            res2 = parse_out(C.run_driver(v, "\n".join(lines) + "\n")[1])
            run.stats["oracle_checks"] += 1
            bad = [ln for ln in res2 if res2[ln] != res.get(ln)]
            if bad:
                run.oracle_fail(title, v, script, "removing the invalid calls changes later results at line(s) %s" % bad[:5],
                                bad[:5] + inv)

def heap_oracle(run, title, v, script, res):
    """C15/C17 on the library's own allocator log: every free is of a live block, once, zero-filled;
    nothing is left allocated at the end of a history that cleans every object up"""
    live = set(); run.stats["oracle_checks"] += 1
    for ln in sorted(res):
        for t in res[ln]:
            w = t.split()
            if w[0] == "alloc": live.add(w[1])
            elif w[0] == "free":
                if w[1] in ("wild", "null") or w[1] not in live:
                    run.oracle_fail(title, v, script, "free of a block that is not live at line %d: %s" % (ln, t), [ln])
                else:
                    live.discard(w[1])
                    if self_prop(run) in ("C15", "C16", "C17") and w[2] != "zero":
                        run.oracle_fail(title, v, script, "block %s freed without being wiped (line %d)" % (w[1], ln), [ln])
    return live
def self_prop(run): return run.prop

def p_c15(run):
    vs = [C.build_variant(run.work, "native", "gcc", "-O1", "asan")]
    if run.tier != "quick":
        vs += std_variants(run, ("native", "nosimd"))
    # life cycles, and life cycles in which some initialisations fail for lack of memory (on objects with any prior content)
    for title, script in G.gen_c15(run.rng, run.tier) + G.gen_c15(run.rng, run.tier, failalloc=True)[: (3 if run.tier == "quick" else 10**6)]:
        for v in vs:
            res = run.correspond(title, script, v)
            if res is not None:
                leaked = heap_oracle(run, title, v, script, res)
                if leaked and "new " not in "\n".join(script.splitlines()[13:]):
                    # these histories never re-initialise a live object, so everything must have been released
                    reinit = False
                    if not reinit:
                        run.oracle_fail(title, v, script, "blocks %s still allocated after every object was cleaned up" % sorted(leaked), [])
def p_c16(run):
    vs = [C.build_variant(run.work, "native", "gcc", "-O1", "asan")]
    if run.tier != "quick":
        vs += std_variants(run, ("native",))
    for title, script in G.gen_c16(run.rng, run.tier):
        for v in vs:
            res = run.correspond(title, script, v)
            if res is not None:
                heap_oracle(run, title, v, script, res)
def p_c17(run):
    vs = std_variants(run, ("native", "nosimd") if run.tier == "quick" else ("native", "nosimd", "w32", "noua"))
    if run.tier != "quick":
        vs.append(C.build_variant(run.work, "native", "clang", "-O3"))
    scripts = G.gen_c15(run.rng, run.tier) + G.gen_c16(run.rng, run.tier)[:1]
    for title, script in scripts:
        for v in vs:
            res = run.correspond(title, script, v)
            if res is not None:
                heap_oracle(run, title, v, script, res)

PROPS = {"C01": p_c01, "C02": p_c02, "C03": p_c03, "C04": p_c04, "C05": p_c05, "C06": p_c06, "C07": p_c07,
         "C09": p_c09, "C10": p_c10, "C13": p_c13, "C14": p_c14, "C15": p_c15, "C16": p_c16, "C17": p_c17}
try:
    import extra
    PROPS.update(extra.PROPS)
except ImportError:
    pass

LEVELS = {}

def main():
    ap = argparse.ArgumentParser()
    ap.add_argument("prop")
    ap.add_argument("--tier", default=os.environ.get("VERIF_TIER", "quick"))
    ap.add_argument("--replay")
    a = ap.parse_args()
    seed = int(os.environ.get("VERIF_SEED", "1"))
    prop = a.prop
    if a.replay:
        return replay(prop, a.replay)
    run = Run(prop, a.tier, seed)
    ev_path = os.path.join(os.environ.get("SKV_EVIDENCE_DIR", os.path.join(C.VERIF, "evidence")), "%s.json" % prop)
    os.makedirs(os.path.dirname(ev_path), exist_ok=True)
    rc = 0
    coq = {"obligations": 0, "discharged": 0, "theorems": [], "assumptions": ""}
    try:
        # 1. theorems
        bad = C.coq_hygiene()
        if os.environ.get("VERIF_DEV_SKIP_COQ"):       # development aid only; never used by registered commands
            raise KeyError("skip")
        ok, log = C.coq_make(["Properties_%s.vo" % prop])
        thms = C.property_theorems(prop)
        ok2, closed, pa = C.print_assumptions(prop) if ok else (False, 0, "")
        coq = {"obligations": len(thms), "discharged": len(thms) if (ok and ok2 and not bad) else 0,
               "theorems": thms, "assumptions": pa.strip()[-1500:], "hygiene": bad}
        if not (ok and ok2) or bad:
            desc = {"property": prop, "kind": "proof", "what": "Coq development no longer checks", "hygiene": bad,
                    "log": (log if not ok else pa)[-3000:]}
            run.add_violation(desc, no_input=True)
    except KeyError:
        pass
    try:
        # 2. correspondence + oracles
        run.model = C.build_model()
        PROPS[prop](run)
        for kf in getattr(run, "kernel_failures", []):
            concrete = [v for v in run.violations if not v[2]]
            run.add_violation({"property": prop, "kind": "kernel-obligation",
                               "what": "a kernel regenerated from the current source (configuration %s) no longer equals its specification step: %s"
                                       % (kf["cfg"], ", ".join(f["kernel"] for f in kf["failed"]) or kf.get("stage")),
                               "theorems": [f["kernel"] + "_check" for f in kf["failed"]], "kernel_counterexamples": kf["failed"],
                               "stage": kf.get("stage"), "log": kf.get("log", "")[-1200:]}, no_input=not concrete)
        for wf in getattr(run, "whole_failures", []):
            concrete = [v for v in run.violations if not v[2]]
            if wf.get("stage") == "translator":
                what = ("the whole-function translator refuses the current source (configuration %s, %s): %s"
                        % (wf["cfg"], wf["part"], wf.get("log", "").strip().splitlines()[-1][:300] if wf.get("log") else ""))
            else:
                what = ("whole-function obligation %s (configuration %s, %s) regenerated from the current source no longer checks"
                        % (wf.get("failed"), wf["cfg"], wf["part"]))
            run.add_violation({"property": prop, "kind": "whole-function-obligation", "what": what,
                               "theorems": [wf.get("failed") or (wf["part"] + "_correct")], "stage": wf.get("stage"),
                               "secret_dependent": wf.get("secret_dependent", False),
                               "log": wf.get("log", "")[-1500:]}, no_input=not concrete)
    except C.BuildError as e:
        desc = {"property": prop, "kind": "build", "what": "the library does not build for variant %s" % e.name, "log": e.log[-3000:]}
        run.add_violation(desc, no_input=True)
    finally:
        run.work.cleanup()
    # a proof/build failure with a concrete failing script found as well: the script is the replay
    concrete = [v for v in run.violations if not v[2]]
    for path, what, no_input in run.violations:
        if no_input and concrete:
            continue
        print("VIOLATION property=%s replay=%s%s" % (prop, path, " no-failing-input-found" if no_input else ""))
        rc = 1
    for k in sorted(set(run.known)):
        print("KNOWN-FINDING: " + k)
    write_evidence(run, coq, ev_path)
    print("%s %s: %d scripts, %d ops, %d oracle checks, %d theorems, %.1fs, %s" % (
        prop, a.tier, run.stats["scripts"], run.stats["ops"], run.stats["oracle_checks"], coq["obligations"],
        time.time() - run.t0, "VIOLATIONS: %d" % len(run.violations) if rc else "ok"))
    return rc

def write_evidence(run, coq, path):
    from levels import LEVEL, TRUSTED, ASSUME
    st = run.stats
    ks = getattr(run, "kernel_stats", None)
    if ks:
        coq = dict(coq); coq["obligations"] += ks["kernel_obligations"]; coq["discharged"] += ks["discharged"]
    ws = getattr(run, "whole_stats", None)
    if ws:
        coq = dict(coq); coq["obligations"] += ws["obligations"]; coq["discharged"] += ws["discharged"]
    cov = {"obligations": coq["obligations"], "discharged": coq["discharged"], "kernel_tie": ks, "whole_function_tie": ws,
           "checker_cmd": "cd /verif/coq && make -k -j16 Properties_%s.vo && coqc -Q . Skinny Properties_%s.v (Print Assumptions)" % (run.prop, run.prop),
           "trusted_base": TRUSTED.get(run.prop, TRUSTED["*"]),
           "theorems": coq["theorems"], "print_assumptions": coq["assumptions"],
           "evaluations": st["ops"], "distinct_nontrivial": max(len(st["lines"]), len(st["shapes"])),
           "distinct_shapes": len(st["shapes"]),
           "rule": "evaluations = operation lines executed (on every build variant) and compared with the model; distinct_nontrivial = "
                   "distinct operation lines (same op, object, lengths AND byte values count once; cfg/new lines included, comments not); "
                   "distinct_shapes = distinct lines after replacing byte payloads by their length; every line's result is compared, so none is trivial",
           "scripts": st["scripts"], "variants": sorted(st["variants"]), "op_kinds": st["op_kinds"],
           "oracle_checks": st["oracle_checks"], "ret0_lines": st["ret0"], "ret1_lines": st["ret1"],
           "samples": run.samples, "explanation": LEVEL.get(run.prop, ("proof", ""))[1], "notes": run.notes}
    ev = {"property_id": run.prop, "tier": run.tier if run.tier in ("quick", "thorough") else "quick", "seed": run.seed,
          "level": LEVEL.get(run.prop, ("proof", ""))[0], "coverage": cov,
          "assumptions": ASSUME.get(run.prop, ASSUME["*"]), "wall_s": round(time.time() - run.t0, 1),
          "violations": len(run.violations)}
    json.dump(ev, open(path, "w"), indent=1)

def replay(prop, path):
    d = json.load(open(path))
    if "script" not in d:
        # proof / build / tool / arduino / thread findings: re-run the check itself and show the recorded finding
        print(json.dumps({k: (v if not isinstance(v, (list, str)) or len(v) < 1200 else str(v)[:1200] + "...") for k, v in d.items()}, indent=1))
        if d.get("kind") == "tool" and "argv" in d:
            print("re-run by hand: build /repo (make), then examples/%s %s on the input whose hex is in input_hex" % (d["tool"], " ".join(d["argv"])))
        return 1
    run = Run(prop, "quick", 0)
    try:
        run.model = C.build_model()
        name = d.get("variant", "native-gcc-O2")
        m = re.match(r"(\w+)-(gcc|clang)(-O\w)(?:-(\w+))?", name)
        v = C.build_variant(run.work, m.group(1), m.group(2), m.group(3), m.group(4) or "")
        sc = "\n".join(d["script"]) + "\n"
        rc, out, err = C.run_driver(v, sc, wrapper=tuple(d.get("wrapper", [])))
        mrc, mout, merr = C.run_model(run.model, v, sc)
        print("--- library (exit %d)\n%s--- model\n%s" % (rc, out[-3000:], mout[-3000:]))
        if err.strip(): print("--- stderr\n" + err[-2000:])
        dd = C.first_diff(out, mout)
        print("first difference:", dd)
        return 1 if (dd or rc) else 0
    finally:
        run.work.cleanup()

if __name__ == "__main__":
    sys.exit(main())
